"""Scripted endpoints on the simulated network: honest relayers, bulk-download servers, adversaries.
They speak the wire protocol with the repo's codecs (as tools) over SimSockets and record everything
the node under test sends them."""
import struct
from io import BytesIO
from ipaddress import IPv6Address

from seams.net import Task

MAGIC = b'MAJI'


class BotConn:
    def __init__(self, bot, sock, direction):
        self.bot = bot
        self.sock = sock
        self.direction = direction      # 'out' = bot connected to the node, 'in' = node connected to the bot
        self.inbuf = b''
        self.out = b''
        self.hello_in = False
        self.hello_out = False
        self.closed = False
        self.received = []              # (virtual ms, header, message)
        self.errors = []
        self.next_id = 0
        self.raw_in = 0
        self.held = []                  # GetData requests a slow peer has not answered yet

    def frame(self, message, in_response_to=0, context=0, ts=None):
        from skepticoin.networking.messages import MessageHeader
        self.next_id += 1
        hdr = MessageHeader(int(self.bot.clock_s()) if ts is None else ts, self.next_id, in_response_to, context)
        data = hdr.serialize() + message.serialize()
        return MAGIC + struct.pack('>I', len(data)) + data

    def send(self, message, in_response_to=0, context=0):
        self.out += self.frame(message, in_response_to, context)
        self.bot.k.wake(self.bot, self.bot.k.now)

    def offer_block(self, block):
        """The bulk-download way of delivering a block: announce it, be asked for it, serve it (the node takes only
        blocks it requested from this peer for bulk-download data)."""
        from skepticoin.networking import messages as M
        bid = block.hash()
        serve = self.bot.b.get('serve')
        if serve is None:
            serve = self.bot.b['serve'] = {'blocks': {}, 'chain': []}
        serve['blocks'][bid] = block
        self.send(M.InventoryMessage([M.InventoryItem(M.DATA_BLOCK, bid)]))

    def release_held(self):
        """Answer the GetData requests held back so far (behaviour 'hold_getdata')."""
        from skepticoin.networking import messages as M
        serve = self.bot.b.get('serve') or {'blocks': {}}
        n = 0
        for hdr, msg in self.held:
            if msg.hash in serve['blocks']:
                self.send(M.DataMessage(M.DATA_BLOCK, serve['blocks'][msg.hash]), in_response_to=hdr.id, context=hdr.context)
                n += 1
        self.held = []
        return n

    def send_raw(self, data: bytes):
        self.out += data
        self.bot.k.wake(self.bot, self.bot.k.now)

    def close(self):
        if not self.closed:
            self.closed = True
            self.sock.close()


class Bot(Task):
    """behaviour keys: greet (bool), serve (dict id->Block + 'chain': list of ids by height) for GetBlocks/GetData,
    peers (list of (host, port)) answered to GetPeers, close_after_hello, nonce, my_port."""

    def __init__(self, kernel, name, host, behaviour=None):
        super().__init__(kernel, name, host)
        self.b = behaviour or {}
        self.conns = []
        self.lsock = None
        self.nonce = self.b.get('nonce', 7000 + len(kernel.tasks))
        self.on_message = None     # optional hook(conn, header, message)

    # ---- connection management
    def listen(self, port):
        self.lsock = self.k.net.socket(self)
        self.lsock.bind(('', port))
        self.lsock.listen()
        self.port = port

    def connect(self, addr):
        s = self.k.net.socket(self)
        s.connect_ex(addr)
        c = BotConn(self, s, 'out')
        self.conns.append(c)
        return c

    def hello(self, c):
        from skepticoin.networking.messages import HelloMessage, SupportedVersion
        c.hello_out = True
        c.send(HelloMessage([SupportedVersion(0)], IPv6Address('::ffff:' + c.sock.remote[0]), c.sock.remote[1] % 65536,
                            IPv6Address('0::0'), self.b.get('my_port', getattr(self, 'port', 0) or 0),
                            self.b.get('hello_nonce', self.nonce), b'sashimi bot'))

    # ---- stepping
    def on_wake(self):
        k = self.k
        if self.lsock is not None:
            while self.lsock.accept_queue:
                s, _ = self.lsock.accept()
                c = BotConn(self, s, 'in')
                self.conns.append(c)
                if self.b.get('silent'):
                    continue
        for c in list(self.conns):
            if c.closed:
                continue
            s = c.sock
            if s.fail or s.rx.reset:
                c.errors.append(s.fail or 'reset')
                c.close()
                continue
            if s.state == 'established' and self.b.get('greet', True) and not c.hello_out and not self.b.get('silent') \
                    and (c.direction == 'out' or self.b.get('greet_first', True)):
                self.hello(c)
            # read
            while True:
                try:
                    d = s.recv(65536)
                except BlockingIOError:
                    break
                except OSError as e:
                    c.errors.append(type(e).__name__)
                    c.close()
                    break
                if d == b'':
                    c.errors.append('eof')
                    c.close()
                    break
                c.raw_in += len(d)
                c.inbuf += d
            if c.closed:
                continue
            self._parse(c)
            # write
            if c.out and s.state == 'established':
                try:
                    n = s.send(c.out)
                    c.out = c.out[n:]
                except OSError as e:
                    c.errors.append(type(e).__name__)
                    c.close()
                    continue
                if c.out:
                    k.wake(self, k.now + 1)
            if self.b.get('close_after_hello') and c.hello_out and not c.out and c.hello_in:
                c.close()

        if len(self.conns) > 40:
            closed = [c for c in self.conns if c.closed]
            if len(closed) > 20:
                drop = set(id(c) for c in closed[:-10])
                self.conns = [c for c in self.conns if id(c) not in drop]

    def _parse(self, c):
        from skepticoin.networking import messages as M
        while True:
            if len(c.inbuf) < 8:
                return
            if c.inbuf[:4] != MAGIC:
                c.errors.append('bad magic from node')
                c.close()
                return
            (ln,) = struct.unpack('>I', c.inbuf[4:8])
            if len(c.inbuf) < 8 + ln:
                return
            payload, c.inbuf = c.inbuf[8:8 + ln], c.inbuf[8 + ln:]
            try:
                f = BytesIO(payload)
                hdr = M.MessageHeader.stream_deserialize(f)
                msg = M.Message.stream_deserialize(f)
            except Exception as e:
                c.errors.append('undecodable from node: %s' % type(e).__name__)
                continue
            c.received.append((self.k.now, hdr, msg, payload))
            self._react(c, hdr, msg)

    def _react(self, c, hdr, msg):
        from skepticoin.networking import messages as M
        if self.on_message is not None:
            if self.on_message(c, hdr, msg):
                return
        if self.b.get('silent'):
            return
        if isinstance(msg, M.HelloMessage):
            c.hello_in = True
            if not c.hello_out and self.b.get('greet', True):
                self.hello(c)
            return
        serve = self.b.get('serve')
        if isinstance(msg, M.GetBlocksMessage):
            if serve is None:
                c.send(M.InventoryMessage([]), in_response_to=hdr.id, context=hdr.context)
                return
            chain = serve['chain']            # list of block ids, index = height - serve['base_height']
            pos = {bid: i for i, bid in enumerate(chain)}
            start = 1
            for h in msg.potential_start_hashes:
                if h in pos:
                    start = pos[h] + 1
                    break
            else:
                if h in serve.get('known_elsewhere', ()):   # noqa
                    pass
            items = [M.InventoryItem(M.DATA_BLOCK, bid) for bid in chain[start:start + 500]]
            c.send(M.InventoryMessage(items), in_response_to=hdr.id, context=hdr.context)
            return
        if isinstance(msg, M.GetDataMessage):
            if self.b.get('hold_getdata'):
                # a slow peer: the request is answered when the script says so (release_held)
                c.held.append((hdr, msg))
                return
            if serve is not None and msg.hash in serve['blocks']:
                c.send(M.DataMessage(M.DATA_BLOCK, serve['blocks'][msg.hash]), in_response_to=hdr.id, context=hdr.context)
            return
        if isinstance(msg, M.GetPeersMessage):
            peers = [M.Peer(0, IPv6Address('::ffff:' + h), p) for (h, p) in self.b.get('peers', [])]
            c.send(M.PeersMessage(peers), in_response_to=hdr.id, context=hdr.context)
            return

    # ---- helpers for oracles
    def data_messages(self, data_type=None):
        from skepticoin.networking import messages as M
        out = []
        for c in self.conns:
            for (t, hdr, msg, payload) in c.received:
                if isinstance(msg, M.DataMessage) and (data_type is None or msg.data_type == data_type):
                    out.append((t, c, hdr, msg))
        return out

    def greeted_conns(self):
        return [c for c in self.conns if c.hello_in and c.hello_out and not c.closed]
