"""Seam for ECDSA entropy: skepticoin.wallet reaches python-ecdsa through its module attribute `ecdsa`.
The stand-in does the real secp256k1 maths; only the nonce / key entropy comes from the seed."""
import hashlib
import random

import ecdsa as _ecdsa


class _SigningKey:
    def __init__(self, sk):
        self._sk = sk
        self.verifying_key = sk.verifying_key

    def sign(self, message, *a, **kw):
        return self._sk.sign_deterministic(message, hashfunc=hashlib.sha1)

    def to_string(self):
        return self._sk.to_string()


class EcdsaShim:
    """Drop-in for the `ecdsa` module as used by skepticoin.wallet."""
    SECP256k1 = _ecdsa.SECP256k1
    keys = _ecdsa.keys
    VerifyingKey = _ecdsa.VerifyingKey

    def __init__(self, seed: int):
        self._rng = random.Random(seed)
        shim = self

        class SigningKey:
            @staticmethod
            def from_string(s, curve=None):
                return _SigningKey(_ecdsa.SigningKey.from_string(s, curve=curve))

            @staticmethod
            def generate(curve=None):
                order = curve.order
                secexp = shim._rng.randrange(1, order)
                return _SigningKey(_ecdsa.SigningKey.from_secret_exponent(secexp, curve=curve))

        self.SigningKey = SigningKey


def install(seed: int):
    import skepticoin.wallet as wallet
    wallet.ecdsa = EcdsaShim(seed)


def uninstall():
    import skepticoin.wallet as wallet
    wallet.ecdsa = _ecdsa
