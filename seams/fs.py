"""Simulated file system with a *process-crash* model.

What survives a crash: completed raw writes (write(2)), truncations by open('w'), renames, removals.
What is lost: bytes still in the Python-level buffer of an open file.
Every mutation of durable state is a numbered boundary; `crash_at = k` raises Crash when boundary k
is reached (before it takes effect), `crash_at = (k, 'torn', n)` lets boundary k (a raw write) take
effect for its first n bytes only and then raises.
"""
import io
import os as _os


class Crash(BaseException):
    pass


class FsError(OSError):
    pass


class _Inode:
    __slots__ = ('data',)

    def __init__(self, data=b''):
        self.data = data


class _Files(dict):
    """path -> bytes view over inodes (kept as a plain mapping for the checks that inspect or preset file contents)."""


class SimFS:
    def __init__(self, raw_write_size: int = 8192):
        self.inodes = {}          # path -> _Inode (durable, OS level); an open handle keeps its inode across renames
        self.raw_write_size = max(1, raw_write_size)
        self.boundary = 0         # counter of durable mutations since reset_boundaries()
        self.crash_at = None
        self.log = []
        self.fail_replace = False

    # dict-like view used by the checks: fs.files[path] -> bytes
    @property
    def files(self):
        return _FilesView(self)

    # ---- boundary accounting
    def reset_boundaries(self):
        self.boundary = 0
        self.log = []

    def _tick(self, what, path, nbytes=None):
        """Returns the number of bytes allowed (for raw writes), or raises Crash."""
        k = self.boundary
        self.boundary += 1
        self.log.append((what, path, nbytes))
        ca = self.crash_at
        if ca is None:
            return nbytes
        if isinstance(ca, tuple):
            if ca[0] == k:
                if what == 'write' and ca[1] == 'torn':
                    return ('torn', min(nbytes, max(0, ca[2])))
                raise Crash()
            return nbytes
        if ca == k:
            raise Crash()
        return nbytes

    # ---- durable operations
    def _raw_write(self, inode, path, data: bytes):
        allowed = self._tick('write', path, len(data))
        if isinstance(allowed, tuple):
            n = allowed[1]
            inode.data = inode.data + data[:n]
            raise Crash()
        inode.data = inode.data + data

    def open(self, path, mode='r', *a, **kw):
        path = str(path)
        if 'r' in mode and '+' not in mode:
            if path not in self.inodes:
                raise FileNotFoundError(2, 'No such file or directory', path)
            data = self.inodes[path].data
            return io.BytesIO(data) if 'b' in mode else io.StringIO(data.decode('utf-8'))
        if 'w' in mode:
            self._tick('truncate', path)
            ino = self.inodes.get(path)
            if ino is None:
                ino = self.inodes[path] = _Inode()
            ino.data = b''
            return SimWriteFile(self, path, ino, binary='b' in mode)
        raise FsError('mode %r not modelled' % mode)

    def replace(self, src, dst):
        if src not in self.inodes:
            raise FileNotFoundError(2, 'No such file or directory', src)
        self._tick('rename', dst)
        self.inodes[dst] = self.inodes.pop(src)

    def remove(self, path):
        if path not in self.inodes:
            raise FileNotFoundError(2, 'No such file or directory', path)
        self._tick('remove', path)
        del self.inodes[path]

    def isfile(self, path):
        return str(path) in self.inodes

    def exists(self, path):
        return str(path) in self.inodes

    def snapshot(self):
        return {p: i.data for p, i in self.inodes.items()}

    def restore(self, snap):
        self.inodes = {p: _Inode(d) for p, d in snap.items()}

    # ---- shims handed to the code under test
    def os_shim(self):
        fs = self

        class _Path:
            isfile = staticmethod(fs.isfile)
            exists = staticmethod(fs.exists)
            isdir = staticmethod(lambda p: False)
            join = staticmethod(_os.path.join)

        class _Os:
            path = _Path
            replace = staticmethod(fs.replace)
            remove = staticmethod(fs.remove)
            rename = staticmethod(fs.replace)
            getpid = staticmethod(_os.getpid)

        return _Os


class _FilesView:
    def __init__(self, fs):
        self.fs = fs

    def __getitem__(self, p):
        return self.fs.inodes[p].data

    def __setitem__(self, p, data):
        self.fs.inodes[p] = _Inode(bytes(data))

    def __contains__(self, p):
        return p in self.fs.inodes

    def get(self, p, default=None):
        i = self.fs.inodes.get(p)
        return default if i is None else i.data

    def __delitem__(self, p):
        del self.fs.inodes[p]


class SimWriteFile:
    def __init__(self, fs: SimFS, path: str, inode, binary: bool):
        self.fs = fs
        self.path = path
        self.inode = inode
        self.binary = binary
        self.buf = b''
        self.closed = False

    def write(self, s):
        if self.closed:
            raise ValueError('I/O operation on closed file.')
        b = s if self.binary else s.encode('utf-8')
        self.buf += b
        n = self.fs.raw_write_size
        while len(self.buf) >= n:
            chunk, self.buf = self.buf[:n], self.buf[n:]
            self.fs._raw_write(self.inode, self.path, chunk)
        return len(s)

    def flush(self):
        if self.buf:
            chunk, self.buf = self.buf, b''
            self.fs._raw_write(self.inode, self.path, chunk)

    def close(self):
        if not self.closed:
            self.flush()
            self.fs._tick('close', self.path)
            self.closed = True

    def __enter__(self):
        return self

    def __exit__(self, et, ev, tb):
        if et is not None and issubclass(et, Crash):
            # the process is gone: nothing is flushed
            self.closed = True
            return False
        self.close()
        return False
