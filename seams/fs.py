"""Simulated file system with a *process-crash* model.

What survives a crash: completed raw writes (write(2)), truncations by open('w'), renames, removals.
What is lost: bytes still in the Python-level buffer of an open file.
Every mutation of durable state is a numbered boundary; `crash_at = k` raises Crash when boundary k
is reached (before it takes effect), `crash_at = (k, 'torn', n)` lets boundary k (a raw write) take
effect for its first n bytes only and then raises.
"""
import io
import os as _os


class Crash(BaseException):
    pass


class FsError(OSError):
    pass


class _Inode:
    __slots__ = ('data',)

    def __init__(self, data=b''):
        self.data = data


class _Files(dict):
    """path -> bytes view over inodes (kept as a plain mapping for the checks that inspect or preset file contents)."""


class SimFS:
    def __init__(self, raw_write_size: int = 8192):
        self.inodes = {}          # path -> _Inode (durable, OS level); an open handle keeps its inode across renames
        self.raw_write_size = max(1, raw_write_size)
        self.boundary = 0         # counter of durable mutations since reset_boundaries()
        self.crash_at = None
        self.log = []
        self.fail_replace = False
        self.enospc = None        # True, or a set of paths: writes and creations there fail with ENOSPC
        self.read_fault = None    # (path, errno): the next open-for-reading of that path fails once
        self.fds = {}             # os.open() descriptors: fd -> (path, flags)
        self._next_fd = 1000

    # dict-like view used by the checks: fs.files[path] -> bytes
    @property
    def files(self):
        return _FilesView(self)

    # ---- boundary accounting
    def reset_boundaries(self):
        self.boundary = 0
        self.log = []

    def _tick(self, what, path, nbytes=None):
        """Returns the number of bytes allowed (for raw writes), or raises Crash."""
        k = self.boundary
        self.boundary += 1
        self.log.append((what, path, nbytes))
        ca = self.crash_at
        if ca is None:
            return nbytes
        if isinstance(ca, tuple):
            if ca[0] == k:
                if what == 'write' and ca[1] == 'torn':
                    return ('torn', min(nbytes, max(0, ca[2])))
                raise Crash()
            return nbytes
        if ca == k:
            raise Crash()
        return nbytes

    # ---- durable operations
    def _raw_write(self, inode, path, data: bytes, pos=None):
        if self.enospc is not None and (self.enospc is True or path in self.enospc):
            raise OSError(28, 'No space left on device', path)
        allowed = self._tick('write', path, len(data))
        if pos is None:
            pos = len(inode.data)
        if isinstance(allowed, tuple):
            n = allowed[1]
            inode.data = inode.data[:pos] + data[:n] + inode.data[pos + n:]
            raise Crash()
        inode.data = inode.data[:pos] + data + inode.data[pos + len(data):]

    def os_open(self, path, flags, mode=0o777):
        path = str(path)
        if flags & _os.O_CREAT and flags & _os.O_EXCL and path in self.inodes:
            raise FileExistsError(17, 'File exists', path)
        if path not in self.inodes:
            if not flags & _os.O_CREAT:
                raise FileNotFoundError(2, 'No such file or directory', path)
            if self.enospc is not None and (self.enospc is True or path in self.enospc):
                raise OSError(28, 'No space left on device', path)
            self._tick('create', path)
            self.inodes[path] = _Inode()
        if flags & _os.O_TRUNC:
            self._tick('truncate', path)
            self.inodes[path].data = b''
        self._next_fd += 1
        self.fds[self._next_fd] = (path, flags)
        return self._next_fd

    def open(self, path, mode='r', *a, **kw):
        if isinstance(path, int):
            # builtin open() on a descriptor from os.open(): writes start at offset 0 and do NOT truncate
            p_, flags = self.fds.pop(path)
            if 'w' in mode or 'a' in mode or '+' in mode:
                return SimWriteFile(self, p_, self.inodes[p_], binary='b' in mode, pos=(len(self.inodes[p_].data) if flags & _os.O_APPEND else 0))
            data = self.inodes[p_].data
            return io.BytesIO(data) if 'b' in mode else io.StringIO(data.decode('utf-8'))
        path = str(path)
        if 'r' in mode and '+' not in mode:
            if self.read_fault and self.read_fault[0] == path:
                # fault: one transient failure to open/read an existing file (EIO, EMFILE, EACCES ...)
                err = self.read_fault[1]
                self.read_fault = None
                raise OSError(err, _os.strerror(err), path)
            if path not in self.inodes:
                raise FileNotFoundError(2, 'No such file or directory', path)
            data = self.inodes[path].data
            return io.BytesIO(data) if 'b' in mode else io.StringIO(data.decode('utf-8'))
        if 'w' in mode or 'x' in mode:
            if 'x' in mode and path in self.inodes:
                raise FileExistsError(17, 'File exists', path)
            if self.enospc is not None and (self.enospc is True or path in self.enospc):
                raise OSError(28, 'No space left on device', path)
            self._tick('truncate', path)
            ino = self.inodes.get(path)
            if ino is None:
                ino = self.inodes[path] = _Inode()
            ino.data = b''
            return SimWriteFile(self, path, ino, binary='b' in mode)
        raise FsError('mode %r not modelled' % mode)

    def replace(self, src, dst):
        if src not in self.inodes:
            raise FileNotFoundError(2, 'No such file or directory', src)
        self._tick('rename', dst)
        self.inodes[dst] = self.inodes.pop(src)

    def remove(self, path):
        if path not in self.inodes:
            raise FileNotFoundError(2, 'No such file or directory', path)
        self._tick('remove', path)
        del self.inodes[path]

    def isfile(self, path):
        return str(path) in self.inodes

    def exists(self, path):
        return str(path) in self.inodes

    def snapshot(self):
        return {p: i.data for p, i in self.inodes.items()}

    def restore(self, snap):
        self.inodes = {p: _Inode(d) for p, d in snap.items()}

    # ---- shims handed to the code under test
    def os_shim(self):
        fs = self

        class _Path:
            isfile = staticmethod(fs.isfile)
            exists = staticmethod(fs.exists)
            isdir = staticmethod(lambda p: False)
            join = staticmethod(_os.path.join)

        class _Os:
            path = _Path
            replace = staticmethod(fs.replace)
            remove = staticmethod(fs.remove)
            rename = staticmethod(fs.replace)
            getpid = staticmethod(_os.getpid)
            open = staticmethod(fs.os_open)
            O_WRONLY, O_RDWR, O_RDONLY, O_CREAT = _os.O_WRONLY, _os.O_RDWR, _os.O_RDONLY, _os.O_CREAT
            O_TRUNC, O_EXCL, O_APPEND = _os.O_TRUNC, _os.O_EXCL, _os.O_APPEND
            fsync = staticmethod(lambda fd: None)

        return _Os


class _FilesView:
    def __init__(self, fs):
        self.fs = fs

    def __getitem__(self, p):
        return self.fs.inodes[p].data

    def __setitem__(self, p, data):
        self.fs.inodes[p] = _Inode(bytes(data))

    def __contains__(self, p):
        return p in self.fs.inodes

    def get(self, p, default=None):
        i = self.fs.inodes.get(p)
        return default if i is None else i.data

    def __delitem__(self, p):
        del self.fs.inodes[p]


class SimWriteFile:
    def __init__(self, fs: SimFS, path: str, inode, binary: bool, pos=None):
        self.fs = fs
        self.path = path
        self.inode = inode
        self.binary = binary
        self.buf = b''
        self.closed = False
        self.pos = pos            # None: append to what is there (the file was truncated on open)

    def fileno(self):
        return -1

    def _emit(self, chunk):
        self.fs._raw_write(self.inode, self.path, chunk, self.pos)
        if self.pos is not None:
            self.pos += len(chunk)

    def write(self, s):
        if self.closed:
            raise ValueError('I/O operation on closed file.')
        b = s if self.binary else s.encode('utf-8')
        self.buf += b
        n = self.fs.raw_write_size
        while len(self.buf) >= n:
            chunk, self.buf = self.buf[:n], self.buf[n:]
            self._emit(chunk)
        return len(s)

    def flush(self):
        if self.buf:
            chunk, self.buf = self.buf, b''
            self._emit(chunk)

    def close(self):
        if not self.closed:
            self.flush()
            self.fs._tick('close', self.path)
            self.closed = True

    def __enter__(self):
        return self

    def __exit__(self, et, ev, tb):
        if et is not None and issubclass(et, Crash):
            # the process is gone: nothing is flushed
            self.closed = True
            return False
        self.close()
        return False
