"""Process-level environment: where the code under test comes from, scratch directory, global seams.

Every check calls setup() once per process (worker) before importing anything from skepticoin.
Nothing is written under /repo or /verif: the scratch directory is the cwd while checks run
(importing skepticoin.blockstore creates chain.db in the cwd).
"""
import atexit
import hashlib
import io
import os
import shutil
import sys
import tempfile

REPO = os.environ.get('VERIF_REPO', '/repo')
_state = {'scratch': None, 'done': False, 'owner_pid': None}


def scratch_dir() -> str:
    return _state['scratch']


def _cleanup():
    d = _state['scratch']
    if d and _state['owner_pid'] == os.getpid():
        shutil.rmtree(d, ignore_errors=True)


def setup():
    """Idempotent.  chdir into a private scratch dir, put the repo on sys.path, silence prints."""
    if _state['done'] and _state['owner_pid'] == os.getpid():
        return
    d = tempfile.mkdtemp(prefix='skverif-')
    _state['scratch'] = d
    _state['owner_pid'] = os.getpid()
    _state['done'] = True
    os.chdir(d)
    atexit.register(_cleanup)
    if REPO not in sys.path:
        sys.path.insert(0, REPO)
    # import with stdout captured: BlockStore.__init__ prints
    old = sys.stdout
    sys.stdout = io.StringIO()
    try:
        import skepticoin.blockstore as bs
        import skepticoin.consensus  # noqa
    finally:
        sys.stdout = old
    # the class-level default store opened chain.db in the scratch dir; close it, checks install their own
    try:
        bs.DefaultBlockStore.instance.close()
    except Exception:
        pass
    bs.DefaultBlockStore.instance = None
    try:
        os.remove(os.path.join(d, 'chain.db'))
    except OSError:
        pass


def new_subdir(name: str) -> str:
    p = os.path.join(_state['scratch'], name)
    if os.path.isdir(p):
        shutil.rmtree(p, ignore_errors=True)
    os.makedirs(p)
    return p


# ---- scrypt stand-in -------------------------------------------------------------------------

def fast_scrypt(password: bytes, salt: bytes) -> bytes:
    return hashlib.blake2b(password + b'|' + salt, digest_size=32).digest()


_real_scrypt = {}


def use_fast_scrypt(on: bool = True):
    import skepticoin.consensus as consensus
    import skepticoin.hash as skhash
    if 'f' not in _real_scrypt:
        _real_scrypt['f'] = skhash.scrypt
    consensus.scrypt = fast_scrypt if on else _real_scrypt['f']


class quiet:
    """Context manager: swallow prints of the code under test (they are not part of the trace)."""

    def __enter__(self):
        self.old = sys.stdout
        sys.stdout = io.StringIO()
        return self

    def __exit__(self, *a):
        sys.stdout = self.old
        return False
