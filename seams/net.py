"""Simulated TCP, selector, clock and per-node seams for running real LocalPeers in one process.

The kernel owns virtual time (ms).  A *task* is anything that gets woken: a SimNode (real LocalPeer)
or a scripted endpoint (Bot).  The code under test reaches sockets / selectors / time / random /
logging / files through module attributes that are replaced by shims delegating to kernel.current.
"""
import errno
import random
import selectors as _selectors
import socket as _socket

from simkit.core import EventHeap, Streams, Trace

EPOCH = 1_700_100_000          # virtual second 0 on every node's clock (plus skew)
EV_READ = _selectors.EVENT_READ
EV_WRITE = _selectors.EVENT_WRITE
CONNECT_TIMEOUT_MS = 127_000


class Profile:
    """Schedule profile: 'random' or 'eager' per dimension (DESIGN 3.2)."""

    def __init__(self, d=None):
        d = d or {}
        self.latency = d.get('latency', 'random')
        self.frag = d.get('frag', 'random')
        self.short_writes = d.get('short_writes', 'random')
        self.order = d.get('order', 'random')
        self.lat_min = d.get('lat_min', 1)
        self.lat_max = d.get('lat_max', 200)


from simkit.core import Deadlock  # noqa: E402  (re-exported: the checks import it from here)


class SimLock:
    """Stands in for threading.Lock in the chain manager (module attribute skepticoin.networking.manager.Lock)."""

    def __init__(self):
        self._held = False

    def acquire(self, blocking=True, timeout=-1):
        if self._held:
            if not blocking:
                return False
            raise Deadlock('acquire() of a lock that was never released')
        self._held = True
        return True

    def release(self):
        if not self._held:
            raise RuntimeError('release unlocked lock')
        self._held = False

    def locked(self):
        return self._held

    def __enter__(self):
        self.acquire()
        return self

    def __exit__(self, *a):
        self.release()
        return False


class EventStorm(Exception):
    """The run exceeded its total event budget (traffic that feeds on itself)."""


class Kernel:
    EVENT_BUDGET = 1_500_000

    def __init__(self, seed: int, profile=None, trace_keep=0):
        self.streams = Streams(seed)
        self.heap = EventHeap()
        self.trace = Trace(keep=trace_keep)
        self.profile = Profile(profile)
        self.current = None
        self.tasks = []
        self.net = SimNet(self)
        self.stats = {}
        self.steps = 0
        self.partitions = []      # list of frozensets of hosts that cannot talk across
        self.error = None
        self.total_events = 0
        self.guard = None         # optional predicate checked after every event: true ends any run() at once

    @property
    def now(self):
        return self.heap.now

    def bump(self, k, n=1):
        self.stats[k] = self.stats.get(k, 0) + n

    def wake(self, task, at_ms):
        """Schedule a wake-up; several may be pending per task (a spurious wake-up is harmless)."""
        at_ms = max(int(at_ms), self.now)
        if at_ms in task.wakes:
            return
        task.wakes.add(at_ms)
        self.heap.push(at_ms, 'wake', task)

    def wake_idle(self, task, at_ms):
        """The task's own periodic wake-up: only needed if nothing earlier is pending."""
        at_ms = max(int(at_ms), self.now)
        if task.wakes and min(task.wakes) <= at_ms:
            return
        self.wake(task, at_ms)

    def at(self, at_ms, fn, *args):
        self.heap.push(max(int(at_ms), self.now), 'call', (fn, args))

    def run(self, until_ms, max_events=2_000_000, stop=None):
        """Process events until virtual time passes until_ms, the queue empties or stop() is true."""
        n = 0
        while len(self.heap) and n < max_events:
            if self.heap.q[0][0] > until_ms:
                break
            at, seq, kind, payload = self.heap.pop()
            n += 1
            self.total_events += 1
            if self.total_events > self.EVENT_BUDGET:
                raise EventStorm('more than %d events in one run (%d still queued at virtual ms %d)' % (
                    self.EVENT_BUDGET, len(self.heap), self.now))
            if kind == 'wake':
                task = payload
                task.wakes.discard(at)
                if not task.alive:
                    continue
                self.current = task
                try:
                    task.on_wake()
                finally:
                    self.current = None
                self.steps += 1
            else:
                fn, args = payload
                fn(*args)
            if stop is not None and stop():
                break
            if self.guard is not None and self.guard():
                break
        if not len(self.heap) or self.heap.q[0][0] > until_ms:
            self.heap.now = max(self.heap.now, until_ms) if until_ms < 1 << 60 else self.heap.now
        return n

    def heal(self, part=None):
        """End one partition (or all): bytes held back by it flow again (TCP retransmission succeeds)."""
        if part is None:
            self.partitions.clear()
        elif part in self.partitions:
            self.partitions.remove(part)
        for sock in self.net.conns:
            for s in (sock, sock.peer):
                if s is None or s.state == 'closed' or not s.rx.held:
                    continue
                src = s.peer
                if src is not None and self.partitioned(src.owner.host, s.owner.host):
                    continue
                t = self.now
                for seg in s.rx.segments:
                    if seg[0] > self.now:
                        t = max(t, self.now + self.net.latency(s)) if seg is s.rx.segments[0] else t
                        seg[0] = t
                s.rx.last_arrival = t
                if s.rx.eof_at is not None and s.rx.eof_at > t:
                    s.rx.eof_at = t
                s.rx.held = False
                self.wake(s.owner, t)
        for t_ in self.tasks:
            if t_.alive:
                self.wake(t_, self.now)

    def partitioned(self, a, b):
        for p in self.partitions:
            if (a in p) != (b in p):
                return True
        return False


# ------------------------------------------------------------------------------------------ TCP

class Pipe:
    """One direction of a connection: segments with arrival times (monotone: TCP does not reorder)."""

    def __init__(self):
        self.segments = []      # [arrival_ms, bytearray]
        self.last_arrival = 0
        self.eof_at = None      # arrival time of FIN
        self.reset = False
        self.sent = 0
        self.held = False

    def available(self, now):
        n = 0
        for at, b in self.segments:
            if at > now:
                break
            n += len(b)
        return n

    def take(self, now, n):
        out = bytearray()
        while n > 0 and self.segments and self.segments[0][0] <= now:
            seg = self.segments[0][1]
            k = min(n, len(seg))
            out += seg[:k]
            del seg[:k]
            n -= k
            if not seg:
                self.segments.pop(0)
        return bytes(out)


class SimSocket:
    _ids = 0

    def __init__(self, net, owner):
        self.net = net
        self.k = net.k
        self.owner = owner
        SimSocket._ids += 1
        self.state = 'new'
        self.peer = None
        self.rx = Pipe()          # what this socket can read
        self.local = None         # (host, port)
        self.remote = None
        self.accept_queue = []
        self.conn_id = None
        self.fail = None          # 'refused' | 'timeout'
        self.bytes_in = 0
        self.reset_after_bytes = None   # fault: break after this many bytes received by the peer side
        self.side = 'c'

    # -- API used by the code under test
    def setblocking(self, flag):
        pass

    def setsockopt(self, *a):
        pass

    def fileno(self):
        return -1 if self.state == 'closed' else 1000

    def bind(self, addr):
        self.local = (self.owner.host, addr[1])

    def listen(self, *a):
        key = (self.owner.host, self.local[1])
        if key in self.net.listeners:
            raise OSError(errno.EADDRINUSE, 'Address already in use')
        self.state = 'listening'
        self.net.listeners[key] = self

    def accept(self):
        if not self.accept_queue:
            raise BlockingIOError(errno.EAGAIN, 'Resource temporarily unavailable')
        s = self.accept_queue.pop(0)
        return s, s.remote

    def getpeername(self):
        if self.remote is None or self.state in ('new', 'closed') or self.rx.reset:
            # (also a connection that the other side reset while it was still waiting in the accept queue)
            raise OSError(107, 'Transport endpoint is not connected')
        return self.remote

    def connect_ex(self, addr):
        return self.net.connect(self, addr) or errno.EINPROGRESS

    def recv(self, n):
        k = self.k
        if self.state == 'closed':
            raise OSError(errno.EBADF, 'Bad file descriptor')
        if self.fail == 'refused':
            raise ConnectionRefusedError(errno.ECONNREFUSED, 'Connection refused')
        if self.fail == 'timeout':
            raise TimeoutError(errno.ETIMEDOUT, 'Connection timed out')
        if self.fail == 'unreachable':
            raise OSError(errno.ENETUNREACH, 'Network is unreachable')
        if self.rx.reset:
            raise ConnectionResetError(errno.ECONNRESET, 'Connection reset by peer')
        avail = self.rx.available(k.now)
        if avail == 0:
            if self.rx.eof_at is not None and self.rx.eof_at <= k.now and not self.rx.segments:
                return b''
            raise BlockingIOError(errno.EAGAIN, 'Resource temporarily unavailable')
        m = min(n, avail)
        if k.profile.frag == 'random' and m > 1:
            r = self.net.rng_frag(self)
            x = r.random()
            if x < 0.25:
                m = 1 + r.randrange(min(m, 8))
            elif x < 0.6:
                m = 1 + r.randrange(m)
        data = self.rx.take(k.now, m)
        self.bytes_in += len(data)
        if self.rx.available(k.now) or self.rx.segments or self.rx.eof_at is not None:
            # more to read later: make sure the owner is woken again
            nxt = k.now + 1 if self.rx.available(k.now) else (self.rx.segments[0][0] if self.rx.segments else self.rx.eof_at)
            k.wake(self.owner, nxt)
        return data

    def send(self, data):
        k = self.k
        if self.state == 'closed':
            raise OSError(errno.EBADF, 'Bad file descriptor')
        if self.state != 'established':
            raise BlockingIOError(errno.EAGAIN, 'Resource temporarily unavailable')
        peer = self.peer
        if self.rx.reset or peer is None:
            raise ConnectionResetError(errno.ECONNRESET, 'Connection reset by peer')
        if peer.state == 'closed':
            raise BrokenPipeError(errno.EPIPE, 'Broken pipe')
        n = len(data)
        if n == 0:
            return 0
        if k.profile.short_writes == 'random' and n > 1:
            r = self.net.rng_frag(self)
            if r.random() < 0.3:
                n = 1 + r.randrange(n)
        chunk = bytes(data[:n])
        pipe = peer.rx
        # fault: connection reset at a seeded byte offset of this direction
        if self.reset_after_bytes is not None and pipe.sent + n >= self.reset_after_bytes:
            keep = max(0, self.reset_after_bytes - pipe.sent)
            if keep:
                self.net.deliver(self, peer, chunk[:keep])
            self.reset_after_bytes = None
            self.net.reset_connection(self, 'mid-stream')
            return n
        self.net.deliver(self, peer, chunk)
        return n

    def close(self):
        if self.state == 'closed':
            return
        was = self.state
        self.state = 'closed'
        if was == 'listening':
            self.net.listeners.pop((self.owner.host, self.local[1]), None)
            return
        peer = self.peer
        if peer is not None and peer.state != 'closed':
            at = max(peer.rx.last_arrival, self.k.now + self.net.latency(self))
            peer.rx.eof_at = at
            peer.rx.last_arrival = at
            self.k.wake(peer.owner, at)
        self.k.trace.add(self.k.now, 'close', self.conn_id)

    # -- readiness
    def readable(self, now):
        if self.state == 'listening':
            return bool(self.accept_queue)
        if self.state == 'closed':
            return True     # a closed but still registered fd: reported so the code meets EBADF
        if self.fail or self.rx.reset:
            return True
        if self.rx.available(now):
            return True
        return self.rx.eof_at is not None and self.rx.eof_at <= now and not self.rx.segments

    def writable(self, now):
        if self.state == 'closed':
            return True
        if self.fail or self.rx.reset:
            return True
        return self.state == 'established'


class SimNet:
    def __init__(self, kernel):
        self.k = kernel
        self.listeners = {}
        self.conns = []
        self.next_port = 0
        self.blackholes = set()    # (host, port) that never answer
        self.unreachable = set()   # hosts for which connect fails at once (ENETUNREACH)
        self.force_local_port = None
        self.refuse = set()
        self.aliases = {}         # (host, port) as dialled -> (host, port) of the listener that answers

    def rng_frag(self, sock):
        return self.k.streams.get('frag:%s:%s' % (sock.conn_id, sock.side))

    def latency(self, sock):
        p = self.k.profile
        if p.latency != 'random':
            return 0
        r = self.k.streams.get('lat:%s' % sock.conn_id)
        return p.lat_min + r.randrange(max(1, p.lat_max - p.lat_min + 1))

    def socket(self, owner):
        return SimSocket(self, owner)

    def connect(self, sock, addr):
        k = self.k
        sock.state = 'connecting'
        sock.remote = (addr[0], addr[1])
        self.next_port += 1
        sock.local = (sock.owner.host, 40000 + self.next_port % 20000)
        if self.force_local_port is not None:
            sock.local = (sock.owner.host, self.force_local_port)     # same 4-tuple as an earlier connection
            self.force_local_port = None
        sock.conn_id = len(self.conns)
        self.conns.append(sock)
        lat = self.latency(sock)
        host, port = addr
        k.trace.add(k.now, 'connect', sock.owner.name, host, port)
        if host in self.unreachable:
            # a non-blocking connect can fail synchronously; the socket is then in an error state
            k.bump('fault:connect_unreachable')
            sock.fail = 'unreachable'
            k.wake(sock.owner, k.now)
            return errno.ENETUNREACH
        if k.partitioned(sock.owner.host, host) or (host, port) in self.blackholes:
            k.bump('fault:connect_timeout')
            k.at(k.now + CONNECT_TIMEOUT_MS, self._fail, sock, 'timeout')
            return
        k.at(k.now + lat, self._complete, sock)

    def _fail(self, sock, how):
        if sock.state != 'connecting':
            return
        sock.fail = how
        self.k.wake(sock.owner, self.k.now)

    def _complete(self, sock):
        k = self.k
        if sock.state != 'connecting':
            return
        # a forwarded address (port forward, NAT hairpin): the dialling side sees the address it dialled, the listener is elsewhere
        lst = self.listeners.get(self.aliases.get(sock.remote, sock.remote))
        if lst is None or lst.state != 'listening' or sock.remote in self.refuse:
            k.bump('connect_refused')
            sock.fail = 'refused'
            k.wake(sock.owner, k.now)
            return
        if k.partitioned(sock.owner.host, sock.remote[0]):
            k.at(k.now + CONNECT_TIMEOUT_MS, self._fail, sock, 'timeout')
            return
        srv = SimSocket(self, lst.owner)
        srv.state = 'established'
        srv.side = 's'
        srv.local = sock.remote
        srv.remote = sock.local
        srv.peer = sock
        srv.conn_id = sock.conn_id
        sock.peer = srv
        sock.state = 'established'
        lst.accept_queue.append(srv)
        k.bump('connections_established')
        k.trace.add(k.now, 'established', sock.conn_id)
        k.wake(lst.owner, k.now)
        k.wake(sock.owner, k.now)
        if getattr(sock, 'reset_on_establish', False):
            # fault: the client aborts the connection while it still sits in the listener's accept queue
            k.bump('fault:reset_while_in_accept_queue')
            self.reset_connection(sock, 'in accept queue')

    def deliver(self, src, dst, chunk):
        k = self.k
        pipe = dst.rx
        if k.partitioned(src.owner.host, dst.owner.host):
            # bytes sent into a partition are held back until it heals (TCP retransmits); modelled as a long delay
            at = max(pipe.last_arrival, k.now + 3_600_000)
            pipe.held = True
            k.bump('fault:held_by_partition')
        else:
            at = max(pipe.last_arrival, k.now + self.latency(src))
        if pipe.segments and pipe.segments[-1][0] == at:
            pipe.segments[-1][1] += chunk
        else:
            pipe.segments.append([at, bytearray(chunk)])
        pipe.last_arrival = at
        pipe.sent += len(chunk)
        k.bump('bytes_sent', len(chunk))
        k.wake(dst.owner, at)

    def reset_connection(self, sock, why=''):
        """Fault: the connection breaks; both ends see ECONNRESET, data in flight is lost."""
        k = self.k
        k.bump('fault:connection_reset')
        k.trace.add(k.now, 'reset', sock.conn_id, why)
        for s in (sock, sock.peer):
            if s is None:
                continue
            s.rx.segments = []
            s.rx.reset = True
            if s.state != 'closed':
                k.wake(s.owner, k.now)


# ------------------------------------------------------------------------------------------ selector

class SimSelector:
    def __init__(self, kernel, owner):
        self.k = kernel
        self.owner = owner
        self.map = {}          # fileobj -> SelectorKey (insertion ordered)
        self.closed = False

    def register(self, fileobj, events, data=None):
        if fileobj in self.map:
            raise KeyError('%r is already registered' % (fileobj,))
        if getattr(fileobj, 'state', None) == 'closed':
            raise ValueError('Invalid file descriptor: -1')
        key = _selectors.SelectorKey(fileobj, id(fileobj), events, data)
        self.map[fileobj] = key
        return key

    def unregister(self, fileobj):
        if fileobj not in self.map:
            if getattr(fileobj, 'state', None) == 'closed':
                raise ValueError('Invalid file descriptor: -1')
            raise KeyError('%r is not registered' % (fileobj,))
        return self.map.pop(fileobj)

    def modify(self, fileobj, events, data=None):
        if fileobj not in self.map:
            if getattr(fileobj, 'state', None) == 'closed':
                raise ValueError('Invalid file descriptor: -1')
            raise KeyError('%r is not registered' % (fileobj,))
        if getattr(fileobj, 'state', None) == 'closed':
            del self.map[fileobj]
            raise OSError(errno.EBADF, 'Bad file descriptor')
        key = self.map[fileobj]._replace(events=events, data=data)
        self.map[fileobj] = key
        if events & EV_WRITE:
            self.k.wake(self.owner, self.k.now)
        return key

    def get_map(self):
        return self.map

    def get_key(self, fileobj):
        return self.map[fileobj]

    def close(self):
        self.closed = True
        self.map = {}

    def select(self, timeout=None):
        now = self.k.now
        ready = []
        for fo, key in list(self.map.items()):
            mask = 0
            if key.events & EV_READ and fo.readable(now):
                mask |= EV_READ
            if key.events & EV_WRITE and fo.writable(now):
                mask |= EV_WRITE
            if mask:
                ready.append((key, mask))
        if len(ready) > 1 and self.k.profile.order == 'random':
            self.k.streams.get('sched:' + self.owner.name).shuffle(ready)
        return ready


# ------------------------------------------------------------------------------------------ shims

class _NullLogger:
    def info(self, *a, **k):
        pass
    debug = warning = error = exception = critical = info


class Shims:
    """Objects installed as module attributes of the code under test; all delegate to kernel.current."""

    def __init__(self, kernel):
        k = kernel
        self.k = k

        def now_fn():
            return k.current.clock_s() if k.current is not None else EPOCH + k.now / 1000.0

        self.time = now_fn

        class SocketShim:
            AF_INET = _socket.AF_INET
            SOCK_STREAM = _socket.SOCK_STREAM
            SOL_SOCKET = _socket.SOL_SOCKET
            SO_REUSEADDR = _socket.SO_REUSEADDR
            socket = staticmethod(lambda *a, **kw: k.net.socket(k.current))

        class SelectorsShim:
            EVENT_READ = EV_READ
            EVENT_WRITE = EV_WRITE
            SelectorKey = _selectors.SelectorKey
            DefaultSelector = staticmethod(lambda: SimSelector(k, k.current))

        class RandomShim:
            randrange = staticmethod(lambda *a: k.current.rng.randrange(*a))
            choice = staticmethod(lambda seq: k.current.rng.choice(seq))
            random = staticmethod(lambda: k.current.rng.random())

        class LoggingShim:
            getLogger = staticmethod(lambda *a: _NullLogger())
            INFO = 20

        class _DT:
            @staticmethod
            def utcnow():
                import datetime as real
                return real.datetime.utcfromtimestamp(now_fn())

        class DatetimeShim:
            datetime = _DT

        class OsShim:
            class path:
                isfile = staticmethod(lambda p: k.current.fs.isfile(p))
                exists = staticmethod(lambda p: k.current.fs.exists(p))
            replace = staticmethod(lambda a, b: k.current.fs.replace(a, b))
            remove = staticmethod(lambda p: k.current.fs.remove(p))

        self.socket = SocketShim
        self.selectors = SelectorsShim
        self.random = RandomShim
        self.logging = LoggingShim
        self.datetime = DatetimeShim
        self.os = OsShim
        self.open = lambda p, mode='r', *a, **kw: k.current.fs.open(p, mode)
        self._saved = []

    def install(self):
        import skepticoin.networking.local_peer as lp
        import skepticoin.networking.remote_peer as rp
        import skepticoin.networking.manager as mg
        import skepticoin.networking.disk_interface as di
        import skepticoin.mining as mining

        def setattr_saved(mod, name, val):
            self._saved.append((mod, name, mod.__dict__.get(name, _MISSING)))
            setattr(mod, name, val)

        setattr_saved(lp, 'socket', self.socket)
        setattr_saved(lp, 'selectors', self.selectors)
        setattr_saved(lp, 'random', self.random)
        setattr_saved(lp, 'logging', self.logging)
        setattr_saved(lp, 'time', self.time)
        setattr_saved(rp, 'time', self.time)
        setattr_saved(rp, 'random', self.random)
        setattr_saved(mg, 'random', self.random)
        setattr_saved(mg, 'Lock', SimLock)
        setattr_saved(mining, 'time', self.time)
        setattr_saved(mining, 'random', self.random)
        setattr_saved(di, 'datetime', self.datetime)
        setattr_saved(di, 'os', self.os)
        setattr_saved(di, 'open', self.open)

        def no_network():
            raise RuntimeError('bootstrap download reached (must never happen in simulation)')
        setattr_saved(di, 'load_peers_from_network', no_network)

    def uninstall(self):
        for mod, name, old in reversed(self._saved):
            if old is _MISSING:
                mod.__dict__.pop(name, None)
            else:
                setattr(mod, name, old)
        self._saved = []
        import skepticoin.blockstore as bs
        bs.DefaultBlockStore.instance = None


_MISSING = object()


# ------------------------------------------------------------------------------------------ tasks

class Task:
    def __init__(self, kernel, name, host):
        self.k = kernel
        self.name = name
        self.host = host
        self.wakes = set()
        self.alive = True
        self.skew_ms = 0
        kernel.tasks.append(self)

    def clock_s(self):
        return EPOCH + (self.k.now + self.skew_ms) / 1000.0

    def on_wake(self):
        raise NotImplementedError


class SimNode(Task):
    """A real LocalPeer with its managers, disk interface, optional real BlockStore and peer file."""

    def __init__(self, kernel, name, host, port=2412, store_path=':memory:', skew_ms=0, slow=1.0):
        super().__init__(kernel, name, host)
        from seams.fs import SimFS
        self.port = port
        self.rng = kernel.streams.get('node:' + name)
        self.fs = SimFS()
        self.store_path = store_path
        self.store = None
        self.lp = None
        self.skew_ms = skew_ms
        self.slow = slow
        self.loop_error = None
        self.incarnation = 0
        self.on_step = None

    def boot(self, coinstate, peers=(), listen=True):
        import skepticoin.blockstore as bs
        from skepticoin.networking.local_peer import LocalPeer
        from skepticoin.networking.disk_interface import DiskInterface
        from skepticoin.networking.remote_peer import load_peers_from_list
        k = self.k
        prev = k.current
        k.current = self
        try:
            if self.store_path is not None and self.store is None:
                self.store = bs.BlockStore(self.store_path)
                if self.store.is_new:
                    # a real node's store holds the chain it starts with (foreign keys need the parents)
                    blocks = sorted(coinstate.block_by_hash.values(), key=lambda b: b.height)
                    self.store.write_blocks_to_disk(blocks)
            bs.DefaultBlockStore.instance = self.store
            # the node is put together by the repo's own constructor (NetworkingThread.__init__: LocalPeer, the chain
            # state it starts with, the peer book); its run() is what step() stands in for.  The peer book comes from
            # the caller instead of peers.json (instance attribute on the DiskInterface).
            from skepticoin.networking.threading import NetworkingThread
            di = DiskInterface()
            di.load_peers = lambda: load_peers_from_list([(h, p, 'OUTGOING') for (h, p) in peers])
            self.thread = NetworkingThread(coinstate, port=(self.port if listen else None), disk_interface=di)
            self.lp = self.thread.local_peer
            if listen and self.port:
                self.lp.start_listening(self.port)
            self.lp.running = True
            self.alive = True
            self.incarnation += 1
            self.loop_error = None
        finally:
            k.current = prev
        k.wake(self, k.now)

    def crash(self):
        """Process death: memory, write buffer, pool, connections gone; store file and SimFS files stay."""
        k = self.k
        self.alive = False
        if self.lp is not None:
            for fo in list(self.lp.selector.get_map().keys()):
                try:
                    fo.close()
                except Exception:
                    pass
            self.lp.selector.close()
        if self.store is not None:
            try:
                self.store.close()
            except Exception:
                pass
            self.store = None
        self.lp = None
        k.bump('fault:node_crash')

    def on_wake(self):
        import skepticoin.blockstore as bs
        k = self.k
        lp = self.lp
        if lp is None or not lp.running:
            return
        bs.DefaultBlockStore.instance = self.store
        t = int(self.clock_s())
        busy = False
        try:
            lp.step_managers(t)
            before = k.stats.get('bytes_sent', 0)
            # what LocalPeer.run does each iteration: step_managers, then handle_selector_events
            lp.handle_selector_events()
            busy = k.stats.get('bytes_sent', 0) != before
        except Deadlock as e:
            self.loop_error = ('Deadlock', 'the event loop blocks forever: %s' % e, '')
            lp.running = False
            k.bump('node_loop_died')
            return
        except Exception as e:   # in LocalPeer.run this ends the loop for good
            import traceback
            self.loop_error = (type(e).__name__, str(e), traceback.format_exc())
            lp.running = False
            k.bump('node_loop_died')
            return
        if self.on_step is not None:
            self.on_step(self)
        r = k.streams.get('sched:' + self.name)
        if k.profile.order == 'random':
            delay = (1 + r.randrange(10)) if busy else (200 + r.randrange(800))
        else:
            delay = 5 if busy else 1000
        k.wake_idle(self, k.now + max(1, int(delay * self.slow)))
