"""Simulated multiprocessing queues + baton-passed miner threads.

The real Miner.__call__ loops run as real threads that are parked at every queue operation and
released one at a time by the scheduler, so who runs is the scheduler's decision and a run replays.
"""
import threading


class StopMiner(KeyboardInterrupt):
    pass


class BatonThread:
    def __init__(self, name, target):
        self.name = name
        self.go = threading.Semaphore(0)
        self.done = threading.Semaphore(0)
        self.blocked_on_empty = None     # queue the thread waits on with nothing to read
        self.finished = False
        self.stop = False
        self.error = None

        def run():
            self.go.acquire()
            try:
                if not self.stop:
                    target()
            except StopMiner:
                pass
            except BaseException as e:      # noqa
                self.error = e
            finally:
                self.finished = True
                self.done.release()
        self.thread = threading.Thread(target=run, name=name, daemon=True)
        self.thread.start()

    def yield_to_scheduler(self):
        self.done.release()
        self.go.acquire()
        if self.stop:
            raise StopMiner()

    def step(self):
        """Release the thread until its next queue operation.  Returns False if it cannot make progress."""
        if self.finished:
            return False
        if self.blocked_on_empty is not None and not self.blocked_on_empty.items:
            return False
        self.go.release()
        self.done.acquire()
        return True

    def shutdown(self):
        if not self.finished:
            self.stop = True
            self.go.release()
            self.done.acquire()
        self.thread.join(timeout=5)


_current = threading.local()


class SimQueue:
    def __init__(self, name):
        self.name = name
        self.items = []
        self.puts = 0

    @staticmethod
    def _baton():
        return getattr(_current, 'baton', None)

    def put(self, item):
        self.items.append(item)
        self.puts += 1
        b = self._baton()
        if b is not None:
            b.yield_to_scheduler()

    def get(self):
        b = self._baton()
        if b is None:
            # scheduler side (watcher): never blocks; the caller checks emptiness first
            return self.items.pop(0)
        while True:
            if self.items:
                b.blocked_on_empty = None
                item = self.items.pop(0)
                return item
            b.blocked_on_empty = self
            b.yield_to_scheduler()

    def empty(self):
        return not self.items


def start_miner_thread(name, miner):
    holder = {}

    def target():
        _current.baton = holder['b']
        miner()
    b = BatonThread(name, target)
    holder['b'] = b
    return b
