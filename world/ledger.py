"""World generation for ledger-level simulation: keys, bases, honest blocks/transactions, sealing.

Everything that must be *consistent with the node* (encodings, merkle roots, evidence) is produced
with the repo's own construction functions, used as tools.
"""
import hashlib

import ecdsa
import immutables

from simkit.core import H

from skepticoin.coinstate import CoinState
from skepticoin.balances import uto_apply_block
from skepticoin.datatypes import (
    Block, BlockHeader, BlockSummary, PowEvidence, Transaction, Input, Output, OutputReference)
from skepticoin.signing import SECP256k1PublicKey, SECP256k1Signature, CoinbaseData, SignableEquivalent
import skepticoin.consensus as consensus

from refmodel import rules

ZERO32 = b'\x00' * 32
TRIVIAL_TARGET = b'\xff' * 32
BASE_TS = 1_700_000_000
H_REAL = 163_000

_ORDER = ecdsa.SECP256k1.order


class Key:
    __slots__ = ('sk', 'pub', 'pk', 'priv')

    def __init__(self, n: int):
        secexp = 1 + H('verif-key', n) % (_ORDER - 2)
        if n == 11:
            # key 11 is the mirror image of key 10 (private key order - d): same x coordinate, opposite y - two different
            # keys with two different owners that agree in the first 32 bytes of their encoding
            secexp = _ORDER - (1 + H('verif-key', 10) % (_ORDER - 2))
        self.sk = ecdsa.SigningKey.from_secret_exponent(secexp, curve=ecdsa.SECP256k1)
        self.pub = self.sk.verifying_key.to_string()
        self.priv = self.sk.to_string()
        self.pk = SECP256k1PublicKey(self.pub)

    def sign(self, message: bytes) -> bytes:
        return self.sk.sign_deterministic(message, hashfunc=hashlib.sha1)


_KEYS = {}


def key(n: int) -> Key:
    k = _KEYS.get(n)
    if k is None:
        k = _KEYS[n] = Key(n)
    return k


_BY_PUB = {}


def key_by_pub(pub: bytes):
    if not _BY_PUB or len(_BY_PUB) != len(_KEYS):
        for k in _KEYS.values():
            _BY_PUB[k.pub] = k
    return _BY_PUB.get(pub)


def view_at(cs: CoinState, head_hash: bytes) -> CoinState:
    """The same stored tree seen with another block as head (CoinState is a plain value)."""
    if cs.current_chain_hash == head_hash:
        return cs
    return CoinState(cs.block_by_hash, cs.unspent_transaction_outs_by_hash, cs.block_by_height_by_hash,
                     cs.heads, head_hash)


# ---- bases ---------------------------------------------------------------------------------------

def _filler_block(ts: int) -> Block:
    cb = Transaction([Input(OutputReference(ZERO32, 0), CoinbaseData(1, b'filler'))],
                     [Output(10, key(0).pk)])
    summ = BlockSummary(1, b'\x11' * 32, consensus.calc_merkle_root_hash([cb]), ts, TRIVIAL_TARGET, 0)
    return Block(BlockHeader(summ, PowEvidence(b'\x22' * 32, b'\x33' * 32, b'\x44' * 32)), [cb])


_BASE_CACHE = {}
_FILLER = {}


def hollow_base(h0: int, target: bytes, n_outputs: int = 12, value_each: int = 5_000_000_000):
    """CoinState whose only stored block T claims height h0; heights below map to never-validated fillers.
    Returns (coinstate, T, filler_ts) — cached per process (CoinState is immutable)."""
    ck = (h0, target, n_outputs, value_each)
    if ck in _BASE_CACHE:
        return _BASE_CACHE[ck]
    filler = _filler_block(BASE_TS - 10_000_000)
    outs = [Output(value_each + i, key(i % 12).pk) for i in range(n_outputs)]
    cb = Transaction([Input(OutputReference(ZERO32, 0), CoinbaseData(h0, b'base'))], outs)
    summ = BlockSummary(h0, ZERO32, consensus.calc_merkle_root_hash([cb]), BASE_TS, target, 0)
    T = Block(BlockHeader(summ, PowEvidence(b'\x55' * 32, b'\x66' * 32, b'\x77' * 32)), [cb])
    d = {h: filler for h in range(h0)}
    d[h0] = T
    by_height = immutables.Map(d)
    th = T.hash()
    cs = CoinState(
        block_by_hash=immutables.Map({th: T}),
        unspent_transaction_outs_by_hash=immutables.Map({th: _apply_to_empty(T)}),
        block_by_height_by_hash=immutables.Map({th: by_height}),
        heads=immutables.Map({th: T}),
        current_chain_hash=th)
    _BASE_CACHE[ck] = (cs, T, filler)
    return _BASE_CACHE[ck]


def hollow_base_with_start(h0: int, target: bytes, start_height: int, start_ts: int):
    """Hollow base whose filler at start_height has its own timestamp (the retarget rule looks there)."""
    cs, T, filler = hollow_base(h0, target)
    special = _filler_block(start_ts)
    th = T.hash()
    by_height = cs.block_by_height_by_hash[th].set(start_height, special)
    cs2 = CoinState(cs.block_by_hash, cs.unspent_transaction_outs_by_hash,
                    immutables.Map({th: by_height}), cs.heads, th)
    return cs2, T


def two_root_base(h0: int, target: bytes, start_height: int, start_ts_1: int, start_ts_2: int, salt: int = 0):
    """Two trusted tips T1 (head) and T2 at the same height whose never-validated histories differ at
    start_height (a fork deeper than one retarget period, as far as the retarget rule can see)."""
    cs1, T1, filler = hollow_base_far(h0, target, salt=salt * 2 + 1, over={start_height: _filler_block(start_ts_1)})
    cs2, T2, _ = hollow_base_far(h0, target, n_outputs=8, value_each=4_000_000_000, salt=salt * 2 + 2,
                                 over={start_height: _filler_block(start_ts_2)})
    t1, t2 = T1.hash(), T2.hash()
    cs = CoinState(
        block_by_hash=cs1.block_by_hash.set(t2, T2),
        unspent_transaction_outs_by_hash=cs1.unspent_transaction_outs_by_hash.set(t2, cs2.unspent_transaction_outs_by_hash[t2]),
        block_by_height_by_hash=cs1.block_by_height_by_hash.set(t2, cs2.block_by_height_by_hash[t2]),
        heads=cs1.heads.set(t2, T2),
        current_chain_hash=t1)
    return cs, T1, T2


class BaseNotApplicable(Exception):
    """The code under test raised while applying a valid, reward-only block (several outputs) to an empty ledger."""


def _apply_to_empty(T):
    try:
        return uto_apply_block(immutables.Map(), T)
    except Exception as e:
        raise BaseNotApplicable('%s: %s' % (type(e).__name__, e))


class HollowMap:
    """height -> Block for a trusted base at ANY height, in O(1): every height below h0 that is not overridden maps
    to one shared never-validated filler.  Offers the part of the immutables.Map interface CoinState uses."""

    def __init__(self, h0, filler, over):
        self.h0 = h0
        self.filler = filler
        self.over = over          # immutables.Map of explicit entries

    def __getitem__(self, h):
        if h in self.over:
            return self.over[h]
        if 0 <= h < self.h0:
            return self.filler
        raise KeyError(h)

    def __contains__(self, h):
        return h in self.over or (isinstance(h, int) and 0 <= h < self.h0)

    def get(self, h, default=None):
        try:
            return self[h]
        except KeyError:
            return default

    def set(self, h, blk):
        return HollowMap(self.h0, self.filler, self.over.set(h, blk))

    def __len__(self):
        return self.h0 + sum(1 for k in self.over.keys() if k >= self.h0)


def hollow_base_far(h0: int, target: bytes, n_outputs: int = 12, value_each: int = 5_000_000_000, salt: int = 0, over=None):
    """Like hollow_base with an O(1) index: for heights where a real 1M-entry index would be wasteful (halving
    boundaries) and for per-run unique bases (salt != 0: nothing a run builds can collide with another run's objects).
    over: extra {height: block} entries of the never-validated history."""
    ck = ('far', h0, target, n_outputs, value_each)
    if salt == 0 and over is None and ck in _BASE_CACHE:
        return _BASE_CACHE[ck]
    filler = _FILLER.get('f')
    if filler is None:
        filler = _FILLER['f'] = _filler_block(BASE_TS - 10_000_000)
    outs = [Output(value_each + i, key(i % 12).pk) for i in range(n_outputs)]
    cb = Transaction([Input(OutputReference(ZERO32, 0), CoinbaseData(h0, b'far%d' % salt if salt else b'far'))], outs)
    summ = BlockSummary(h0, ZERO32, consensus.calc_merkle_root_hash([cb]), BASE_TS, target, 0)
    T = Block(BlockHeader(summ, PowEvidence(b'\x59' * 32, b'\x69' * 32, b'\x79' * 32)), [cb])
    th = T.hash()
    cs = CoinState(
        block_by_hash=immutables.Map({th: T}),
        unspent_transaction_outs_by_hash=immutables.Map({th: _apply_to_empty(T)}),
        block_by_height_by_hash=immutables.Map({th: HollowMap(h0, filler, immutables.Map({**(over or {}), h0: T}))}),
        heads=immutables.Map({th: T}),
        current_chain_hash=th)
    if salt == 0 and over is None:
        _BASE_CACHE[ck] = (cs, T, filler)
    return cs, T, filler


def genesis_base():
    cs = CoinState.zero()
    return cs, cs.head()


_EASY = {}


def easy_block_one(cs_genesis):
    """Genesis + a block at height 1 that states the trivial target (trusted, never validated in chain)."""
    if 'b' not in _EASY:
        g = cs_genesis.head()
        outs = [(5_000_000_000 + i, key(i % 12)) for i in range(12)]
        cb = reward_tx(1, outs, b'easy')
        blk = seal(cs_genesis, 1, g.hash(), g.timestamp + 60, TRIVIAL_TARGET, [cb])
        _EASY['b'] = blk
        _EASY['cs'] = cs_genesis.add_block_no_validation(blk)
    return _EASY['cs'], _EASY['b']


# ---- transactions --------------------------------------------------------------------------------

def make_tx(refs, outputs, signers=None, message_tx=None):
    """refs: list of (txid, index); outputs: list of (value, Key); signers: list of Key per input
    (None → placeholder SignableEquivalent).  message_tx: sign this transaction's blank form instead."""
    ins_blank = [Input(OutputReference(h, i), SignableEquivalent()) for (h, i) in refs]
    outs = [Output(v, k.pk if isinstance(k, Key) else k) for (v, k) in outputs]
    if message_tx is None:
        msg = Transaction(ins_blank, outs).serialize()
    else:
        msg = rules.blank_message(message_tx)
    ins = []
    for n, (h, i) in enumerate(refs):
        s = signers[n] if signers else None
        if s is None:
            sig = SignableEquivalent()
        elif isinstance(s, Key):
            sig = SECP256k1Signature(s.sign(msg))
        else:
            sig = s   # a ready-made Signature-like object
        ins.append(Input(OutputReference(h, i), sig))
    return Transaction(ins, outs)


def reward_tx(height: int, outputs, data: bytes = b''):
    outs = [Output(v, k.pk if isinstance(k, Key) else k) for (v, k) in outputs]
    return Transaction([Input(OutputReference(ZERO32, 0), CoinbaseData(height, data))], outs)


# ---- sealing: header fields → evidence → nonce ---------------------------------------------------

class Unminable(Exception):
    pass


def seal(view: CoinState, height: int, prev: bytes, ts: int, target: bytes, txs, *, merkle=None,
         evidence_height=None, nonce0: int = 0, max_tries: int = 20000, want_below: bool = True,
         evidence_mut=None, evidence_txs=None, fake_scrypt=None):
    """Compute merkle root and evidence with the repo's constructors and search a nonce so that the
    id is below (or, for a forgery, not below) the target.  evidence_mut(ev)->ev' alters evidence
    after construction (the id then covers the altered evidence)."""
    mr = merkle if merkle is not None else consensus.calc_merkle_root_hash(txs)
    eh = height if evidence_height is None else evidence_height
    nonce = nonce0
    for _ in range(max_tries):
        summ = BlockSummary(height, prev, mr, ts, target, nonce % (1 << 32))
        if fake_scrypt is not None:
            # a made-up "scrypt result", everything that depends on it computed consistently from it
            fake = hashlib.sha256(fake_scrypt + nonce.to_bytes(8, 'big')).digest()
            ev = consensus.construct_pow_evidence_after_scrypt(fake, view, summ, eh, txs)
        else:
            ev = consensus.construct_pow_evidence(view, summ, eh, txs if evidence_txs is None else evidence_txs)
        if evidence_mut is not None:
            ev = evidence_mut(ev)
        hdr = BlockHeader(summ, ev)
        below = hdr.hash() < target
        if below == want_below:
            return Block(hdr, txs)
        nonce += 1
    raise Unminable()


def mine_honest(view: CoinState, txs, miner: Key, ts: int, nonce0: int = 0, max_tries: int = 20000, data: bytes = b''):
    """The node's own assembly path (construct_block_for_mining) + nonce search."""
    nonce = nonce0
    for _ in range(max_tries):
        b = consensus.construct_block_for_mining(view, list(txs), miner.pk, ts, data, nonce % (1 << 32))
        if b.hash() < b.target:
            return b
        nonce += 1
    raise Unminable()


def roundtrip(block: Block) -> Block:
    """What a peer can put on the wire: serialise and decode again."""
    return Block.deserialize(block.serialize())
