"""node-sim: one real LocalPeer (+ managers, DiskInterface, real BlockStore) among scripted peers.

A shadow LedgerSim builds the initial chain and every candidate; the reference chain mirrors what the
node should hold.  Bytes go Bot -> SimSocket -> LocalPeer.handle_remote_peer_selector_event ->
MessageReceiver -> handlers: the production path.
"""
import os

from simkit.core import Result, Trace
from seams import env
from seams.net import Kernel, SimNode, Shims, EPOCH
from seams.bots import Bot


class WorldNotBuilt(Exception):
    pass


class NodeWorld:
    def __init__(self, script, prop, res: Result, n_bots=3, file_store=False, trace_keep=0, profile=None):
        env.setup()
        env.use_fast_scrypt(True)
        from engines.ledger import LedgerSim
        cfg = script['config']
        self.cfg = cfg
        self.res = res
        self.prop = prop
        self.k = Kernel(script.get('seed', 0), profile or cfg.get('profile'), trace_keep=trace_keep)
        self.trace = self.k.trace
        self.shims = Shims(self.k)
        self.shims.install()
        # per-run unique objects (salted base and reward data): nothing this run builds exists in another run of the same
        # worker process, so state a changed tree keeps at module level cannot carry a verdict from run to run
        self.sim = LedgerSim({'base': cfg.get('base', 'hreal'), 'hard': cfg.get('hard', False), 'k': cfg.get('k', 0),
                              'elapsed': cfg.get('elapsed', 1_209_600),
                              'salt': cfg.get('salt', 0 if os.environ.get('VERIF_TEST_NOSALT') else 1 + script.get('seed', 0) % 0xfffffff0)},
                             prop, res, self.trace)
        self.sim.run(cfg.get('build', []))
        self.store_file = None
        path = ':memory:'
        if file_store:
            path = os.path.join(env.scratch_dir(), 'node-%d.db' % os.getpid())
            self._rm(path)
            self.store_file = path
        self.node = SimNode(self.k, 'N', '10.0.0.1', port=2412, store_path=path, skew_ms=cfg.get('skew_ms', 0))
        self.bots = []
        for i in range(n_bots):
            b = Bot(self.k, 'bot%d' % i, '10.0.1.%d' % (i + 1), {'my_port': 0})
            self.bots.append(b)
        try:
            # from_genesis: a freshly installed node; the world's first blocks reach it by bulk download (the check's business)
            self.node.boot(self.sim.cs_genesis if cfg.get('from_genesis') else self.sim.cs, peers=[])
        except Exception as e:
            # the store (code under test) refuses the valid chain the node starts with: nothing can be judged in this world
            # (C08 decides what the store must take); no run is wasted on a harness error
            res.bump('world_not_built_store_refused_starting_chain:%s' % type(e).__name__)
            self.sim.dead = True
            self.shims.uninstall()
            raise WorldNotBuilt(str(e))
        for b in self.bots:
            b.connect(('10.0.0.1', 2412))
        self.settle(3000)

    @staticmethod
    def _rm(path):
        for suffix in ('', '-journal'):
            try:
                os.remove(path + suffix)
            except OSError:
                pass

    # ---- time
    def settle(self, ms=3000):
        self.k.run(self.k.now + ms)

    def node_clock(self):
        return int(self.node.clock_s())

    # ---- connections
    def conn(self, i):
        """A greeted connection of bot i to the node (reconnects if the node dropped it)."""
        b = self.bots[i % len(self.bots)]
        live = [c for c in b.conns if not c.closed and c.hello_in and c.hello_out]
        if live:
            return live[-1]
        b.connect(('10.0.0.1', 2412))
        self.settle(3000)
        live = [c for c in b.conns if not c.closed and c.hello_in and c.hello_out]
        return live[-1] if live else None

    def greeted_bot_conns(self):
        out = []
        for b in self.bots:
            out.extend(c for c in b.conns if not c.closed and c.hello_in and c.hello_out)
        return out

    # ---- observations
    @property
    def cm(self):
        return self.node.lp.chain_manager

    def node_ids(self):
        return set(self.cm.coinstate.block_by_hash.keys())

    def store_ids(self):
        from skepticoin.genesis import genesis_block_data
        from skepticoin.datatypes import Block
        rows = {row[0] for row in self.node.store.sql('select block_hash from chain')}
        g = Block.deserialize(genesis_block_data).hash()
        if g not in self.sim.chain.blocks:
            rows.discard(g)      # every new store file holds the built-in genesis row; the hollow base does not use it
        return rows

    def pool_ids(self):
        from refmodel import rules
        return [rules.tx_id(t) for t in self.cm.transaction_pool]

    def count_block_messages(self, bid):
        """Per greeted bot connection: how many DataMessages carrying block bid the node sent."""
        from skepticoin.networking import messages as M
        from refmodel import rules
        out = {}
        for b in self.bots:
            for c in b.conns:
                n = 0
                for (t, hdr, msg, payload) in c.received:
                    if isinstance(msg, M.DataMessage) and msg.data_type == M.DATA_BLOCK and rules.block_id(msg.data) == bid:
                        n += 1
                out[(b.name, id(c))] = (n, c)
        return out

    def close(self):
        try:
            if self.node.store is not None:
                self.node.store.close()
        except Exception:
            pass
        self.shims.uninstall()
        if self.store_file:
            self._rm(self.store_file)
        self.res.virtual_s += self.k.now / 1000.0
        self.res.events += self.k.steps
        for k, v in self.k.stats.items():
            self.res.bump(k, v)
