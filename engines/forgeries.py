"""Byzantine block generator (DESIGN 4.3): start from an honest template on a stored parent, break ONE
rule, repair everything the rule under test does not concern (merkle root, evidence, proof of work
are recomputed with the repo's own constructors) so the candidate reaches the rule.
"""
import os

from skepticoin.datatypes import Transaction, Input, Output, OutputReference, PowEvidence
from skepticoin.signing import SECP256k1Signature, SignableEquivalent, CoinbaseData
import skepticoin.consensus as consensus

from refmodel import rules
from refmodel.rules import MAX_SASHIMI, ZERO32
from world import ledger as W
from world.ledger import key, view_at, seal, make_tx, reward_tx
from simkit.core import H

N_KEYS = 12

SPEND = ['spend_missing', 'spend_spent', 'spend_other_fork', 'spend_same_block', 'dup_ref_in_tx',
         'dup_ref_in_block', 'dup_ref_in_block_apart', 'null_ref', 'sig_other_key', 'sig_other_message', 'outputs_changed',
         'input_added', 'input_removed', 'inputs_reordered', 'sigs_swapped', 'placeholder_sig',
         'coinbasedata_sig', 'junk_sig', 'low_height_steal', 'second_sig_junk', 'second_sig_copy', 'second_sig_other_key',
         'replayed_sig_new_outputs', 'spend_noncurve_key_output', 'spend_zero_key_forged_sig']
VALUE = ['reward_plus_one', 'reward_plus_other_fee', 'out_zero', 'out_max_plus_one', 'outs_sum_over_max',
         'outs_exceed_inputs', 'out_2_64_minus_1', 'two_rewards', 'reward_not_first', 'reward_two_inputs',
         'reward_real_ref', 'reward_null_ref_index', 'low_height_mint', 'outs_exceed_inputs_comp', 'reward_split_over', 'reward_prev_era']
HEADER = ['pow_not_below', 'target_plus_1', 'target_minus_1', 'target_initial', 'target_parent_at_boundary',
          'target_elapsed_off_by_one', 'target_float', 'height_plus_2', 'height_same', 'height_low',
          'height_low_pure', 'reward_height_differs', 'ts_equal_parent', 'ts_before_parent', 'ts_now_plus_31',
          'ev_summary_hash', 'ev_sample', 'ev_block_hash', 'ev_other_txs', 'ev_fake_scrypt']
STRUCT = ['no_txs', 'dup_tx', 'wrong_merkle', 'merkle_dup_last', 'merkle_reordered', 'merkle_one_removed',
          'unknown_parent']
ALL = SPEND + VALUE + HEADER + STRUCT


def _template(sim, rb, op, specs=None):
    ts = rb.ts + max(1, op.get('dt', 60))
    now = ts + max(-30, op.get('clock', 0))
    a = op.get('a', 0)
    if specs is None:
        specs = [{'ins': [a], 'outs': [[a + 1, 3], [a + 2, 2]], 'fee_ppm': (a % 4) * 1000}]
    txs, fees, used = sim.build_txs(rb, specs)
    height = rb.height + 1
    d = {
        'height': height, 'prev': rb.id, 'ts': ts, 'now': now,
        'target': sim.expected_target(rb, ts), 'others': txs, 'fees': fees, 'used': used,
        'miner': key(op.get('b', 0) % N_KEYS), 'reward_extra': 0, 'reward_height': None,
    }
    return d


def _finish(sim, rb, d):
    rh = d['reward_height'] if d['reward_height'] is not None else d['height']
    if 'txs' in d:
        txs = d['txs']
    else:
        value = rules.subsidy(rb.height + 1) + d['fees'] + d['reward_extra']
        reward = d.get('reward') or reward_tx(rh, [(value, d['miner'])])
        txs = [reward] + d['others']
    view = view_at(sim.cs, rb.id)
    try:
        blk = seal(view, d['height'], d['prev'], d['ts'], d['target'], txs, merkle=d.get('merkle'),
                   evidence_height=d.get('evidence_height'), want_below=d.get('want_below', True),
                   evidence_mut=d.get('evidence_mut'), evidence_txs=d.get('evidence_txs'), fake_scrypt=d.get('fake_scrypt'),
                   max_tries=d.get('max_tries', 20000))
    except KeyError:
        return None
    return blk, d['now']


def _owned(sim, rb, ref):
    return W.key_by_pub(rb.utxo[ref][1])


def _pick(sim, rb, n, used=()):
    av = sim.utxo_list(rb, used)
    if not av:
        return None
    return av[n % len(av)]


def _other_key(k, n=1):
    for i in range(1, N_KEYS):
        c = key((n + i) % N_KEYS)
        if c.pub != k.pub:
            return c


def build(sim, kind, rb, op):
    a, b = op.get('a', 0), op.get('b', 0)
    d = _template(sim, rb, op)
    used = d['used']
    f = globals().get('f_' + kind)
    if f is None:
        raise KeyError(kind)
    r = f(sim, rb, op, d, a, b)
    if r is False:
        return None
    return _finish(sim, rb, d)


def _add_tx(d, tx, fee):
    d['others'].append(tx)
    d['fees'] += fee


# ---------------------------------------------------------------- spending (C01)

def f_spend_missing(sim, rb, op, d, a, b):
    ref = (H('missing', a, b).to_bytes(8, 'big') * 4, a % 3)
    _add_tx(d, make_tx([ref], [(1000, key(a))], [key(b % N_KEYS)]), 0)


def _spent_refs(sim, rb):
    out = []
    cur = rb.parent
    seen = set()
    while cur is not None and len(out) < 50:
        for ref in cur.utxo:
            if ref not in rb.utxo and ref not in seen:
                seen.add(ref)
                out.append((ref, cur.utxo[ref]))
        cur = cur.parent
    return sorted(out)


def f_spend_spent(sim, rb, op, d, a, b):
    sp = _spent_refs(sim, rb)
    if not sp:
        return False
    ref, (value, pub) = sp[a % len(sp)]
    _add_tx(d, make_tx([ref], [(value, key(b % N_KEYS))], [W.key_by_pub(pub)]), 0)


def f_spend_other_fork(sim, rb, op, d, a, b):
    anc = set(sim.chain.ancestors(rb).values())
    cands = []
    for bid in sim.stored:
        if bid in anc:
            continue
        ob = sim.chain.blocks[bid]
        for ref, v in ob.utxo.items():
            if ref not in rb.utxo:
                # must never have existed on rb's chain
                cur, found = rb.parent, False
                while cur is not None:
                    if ref in cur.utxo:
                        found = True
                        break
                    cur = cur.parent
                if not found:
                    cands.append((ref, v))
        if len(cands) > 30:
            break
    if not cands:
        return False
    cands.sort()
    ref, (value, pub) = cands[a % len(cands)]
    sim.res.bump('probe:other_fork_output_spent_attempt')
    _add_tx(d, make_tx([ref], [(value, key(b % N_KEYS))], [W.key_by_pub(pub)]), 0)


def f_spend_same_block(sim, rb, op, d, a, b):
    if not d['others']:
        return False
    t1 = d['others'][0]
    tid = rules.tx_id(t1)
    out = t1.outputs[0]
    owner = W.key_by_pub(out.public_key.public_key)
    _add_tx(d, make_tx([(tid, 0)], [(out.value, key(b % N_KEYS))], [owner]), 0)


def f_dup_ref_in_tx(sim, rb, op, d, a, b):
    ref = _pick(sim, rb, a, d['used'])
    if ref is None:
        return False
    v = rb.utxo[ref][0]
    k = _owned(sim, rb, ref)
    # claims the output's value twice
    _add_tx(d, make_tx([ref, ref], [(2 * v, key(b % N_KEYS))], [k, k]), 0)


def f_dup_ref_in_block(sim, rb, op, d, a, b):
    if not d['others']:
        return False
    t1 = d['others'][0]
    r = t1.inputs[0].output_reference
    ref = (r.hash, r.index)
    v = rb.utxo[ref][0]
    _add_tx(d, make_tx([ref], [(v, key(b % N_KEYS))], [_owned(sim, rb, ref)]), 0)


def f_dup_ref_in_block_apart(sim, rb, op, d, a, b):
    """The same output spent by two transactions of one block that are NOT neighbours: unrelated honest transactions sit
    between the two spends (and the second spend is the block's last transaction)."""
    if not d['others']:
        return False
    t1 = d['others'][0]
    r = t1.inputs[0].output_reference
    ref = (r.hash, r.index)
    v = rb.utxo[ref][0]
    between = 0
    for j in range(1 + a % 2):
        r2 = _pick(sim, rb, a + 7 * j + 1, d['used'] | {ref})
        if r2 is None:
            break
        d['used'].add(r2)
        _add_tx(d, make_tx([r2], [(rb.utxo[r2][0], key((b + j) % N_KEYS))], [_owned(sim, rb, r2)]), 0)
        between += 1
    if not between:
        return False
    sim.res.bump('probe:conflicting_spends_with_transactions_between_them')
    _add_tx(d, make_tx([ref], [(v, key(b % N_KEYS))], [_owned(sim, rb, ref)]), 0)


def f_null_ref(sim, rb, op, d, a, b):
    ref = _pick(sim, rb, a, d['used'])
    if ref is None:
        return False
    k = _owned(sim, rb, ref)
    v = rb.utxo[ref][0]
    _add_tx(d, make_tx([ref, (ZERO32, 0)], [(v, key(b % N_KEYS))], [k, k]), 0)


def f_sig_other_key(sim, rb, op, d, a, b):
    ref = _pick(sim, rb, a, d['used'])
    if ref is None:
        return False
    k = _other_key(_owned(sim, rb, ref), b)
    v = rb.utxo[ref][0]
    _add_tx(d, make_tx([ref], [(v, k)], [k]), 0)


def f_sig_other_message(sim, rb, op, d, a, b):
    ref = _pick(sim, rb, a, d['used'])
    if ref is None:
        return False
    k = _owned(sim, rb, ref)
    v = rb.utxo[ref][0]
    other = make_tx([ref], [(v, k)], None)
    _add_tx(d, make_tx([ref], [(v, _other_key(k, b))], [k], message_tx=other), 0)


def f_outputs_changed(sim, rb, op, d, a, b):
    ref = _pick(sim, rb, a, d['used'])
    if ref is None:
        return False
    k = _owned(sim, rb, ref)
    v = rb.utxo[ref][0]
    if v < 4:
        return False
    signed = make_tx([ref], [(v // 2, k), (v - v // 2, k)], [k])
    thief = _other_key(k, b)
    variant = b % 3
    if variant == 0:      # redirect one output
        outs = [Output(v // 2, thief.pk), signed.outputs[1]]
    elif variant == 1:    # move value between outputs
        outs = [Output(v // 2 - 1, k.pk), Output(v - v // 2 + 1, k.pk)]
    else:                 # append an output by lowering another
        outs = [Output(v // 2 - 1, k.pk), signed.outputs[1], Output(1, thief.pk)]
    _add_tx(d, Transaction(list(signed.inputs), outs), 0)


def _two_refs(sim, rb, d, a, distinct_owner=False):
    av = sim.utxo_list(rb, d['used'])
    if len(av) < 2:
        return None
    r1 = av[a % len(av)]
    for j in range(1, len(av)):
        r2 = av[(a + j) % len(av)]
        if r2 != r1 and (not distinct_owner or rb.utxo[r2][1] != rb.utxo[r1][1]):
            return r1, r2
    return None


def f_input_added(sim, rb, op, d, a, b):
    rr = _two_refs(sim, rb, d, a)
    if rr is None:
        return False
    r1, r2 = rr
    k1, k2 = _owned(sim, rb, r1), _owned(sim, rb, r2)
    v1, v2 = rb.utxo[r1][0], rb.utxo[r2][0]
    # r1's owner signed a one-input payment; an input is added afterwards (r2 signed over the new form)
    t_small = make_tx([r1], [(v1 + v2, k2)], [k1])
    t_big = make_tx([r1, r2], [(v1 + v2, k2)], [k1, k2])
    ins = [t_small.inputs[0], t_big.inputs[1]]
    _add_tx(d, Transaction(ins, list(t_big.outputs)), 0)


def f_input_removed(sim, rb, op, d, a, b):
    rr = _two_refs(sim, rb, d, a)
    if rr is None:
        return False
    r1, r2 = rr
    k1, k2 = _owned(sim, rb, r1), _owned(sim, rb, r2)
    v1 = rb.utxo[r1][0]
    t_big = make_tx([r1, r2], [(v1, k2)], [k1, k2])
    _add_tx(d, Transaction([t_big.inputs[0]], list(t_big.outputs)), 0)


def f_inputs_reordered(sim, rb, op, d, a, b):
    rr = _two_refs(sim, rb, d, a)
    if rr is None:
        return False
    r1, r2 = rr
    k1, k2 = _owned(sim, rb, r1), _owned(sim, rb, r2)
    v = rb.utxo[r1][0] + rb.utxo[r2][0]
    t = make_tx([r1, r2], [(v, key(b % N_KEYS))], [k1, k2])
    _add_tx(d, Transaction([t.inputs[1], t.inputs[0]], list(t.outputs)), 0)


def f_sigs_swapped(sim, rb, op, d, a, b):
    rr = _two_refs(sim, rb, d, a, distinct_owner=True)
    if rr is None:
        return False
    r1, r2 = rr
    k1, k2 = _owned(sim, rb, r1), _owned(sim, rb, r2)
    v = rb.utxo[r1][0] + rb.utxo[r2][0]
    t = make_tx([r1, r2], [(v, key(b % N_KEYS))], [k1, k2])
    ins = [Input(t.inputs[0].output_reference, t.inputs[1].signature),
           Input(t.inputs[1].output_reference, t.inputs[0].signature)]
    _add_tx(d, Transaction(ins, list(t.outputs)), 0)


def f_placeholder_sig(sim, rb, op, d, a, b):
    ref = _pick(sim, rb, a, d['used'])
    if ref is None:
        return False
    v = rb.utxo[ref][0]
    _add_tx(d, make_tx([ref], [(v, key(b % N_KEYS))], [SignableEquivalent()]), 0)


def f_coinbasedata_sig(sim, rb, op, d, a, b):
    ref = _pick(sim, rb, a, d['used'])
    if ref is None:
        return False
    v = rb.utxo[ref][0]
    _add_tx(d, make_tx([ref], [(v, key(b % N_KEYS))], [CoinbaseData(rb.height + 1, b'x' * (b % 5))]), 0)


def f_junk_sig(sim, rb, op, d, a, b):
    ref = _pick(sim, rb, a, d['used'])
    if ref is None:
        return False
    v = rb.utxo[ref][0]
    junk = SECP256k1Signature(bytes([(a + i * 7 + b) % 256 for i in range(64)]))
    _add_tx(d, make_tx([ref], [(v, key(b % N_KEYS))], [junk]), 0)


def _second_input(sim, rb, op, d, a, b, how):
    """First input spends the forger's own output with a good signature; the second takes someone else's."""
    rr = _two_refs(sim, rb, d, a, distinct_owner=True)
    if rr is None:
        return False
    r1, r2 = rr
    k1, k2 = _owned(sim, rb, r1), _owned(sim, rb, r2)
    v = rb.utxo[r1][0] + rb.utxo[r2][0]
    good = make_tx([r1, r2], [(v, k1)], [k1, k2])
    first = good.inputs[0]
    if how == 'junk':
        sig2 = SECP256k1Signature(bytes([(a * 3 + i) % 256 for i in range(64)]))
    elif how == 'copy':
        sig2 = first.signature          # a byte-identical copy of the first input's (valid) signature
    else:
        sig2 = make_tx([r1, r2], [(v, k1)], [k1, k1]).inputs[1].signature   # signed by the forger's key
    _add_tx(d, Transaction([first, Input(good.inputs[1].output_reference, sig2)], list(good.outputs)), 0)


def f_second_sig_junk(sim, rb, op, d, a, b):
    return _second_input(sim, rb, op, d, a, b, 'junk')


def f_second_sig_copy(sim, rb, op, d, a, b):
    return _second_input(sim, rb, op, d, a, b, 'copy')


def f_second_sig_other_key(sim, rb, op, d, a, b):
    return _second_input(sim, rb, op, d, a, b, 'other')


def f_replayed_sig_new_outputs(sim, rb, op, d, a, b):
    """An honest spend that the node has ALREADY validated (in a stored sibling/ancestor block) is replayed with its
    published signature bytes but other outputs, on a parent where the output is still unspent."""
    for bid in reversed(sim.stored):
        blk = sim.block_objs.get(bid)
        if blk is None:
            continue
        for t in blk.transactions[1:]:
            refs = [(i.output_reference.hash, i.output_reference.index) for i in t.inputs]
            if all(r in rb.utxo for r in refs):
                total = sum(rb.utxo[r][0] for r in refs)
                thief = _other_key(_owned(sim, rb, refs[0]), b)
                sim.res.bump('probe:validated_signature_replayed')
                _add_tx(d, Transaction(list(t.inputs), [Output(total, thief.pk)]), 0)
                return None
    return False


def f_spend_noncurve_key_output(sim, rb, op, d, a, b):
    """Spend of an output whose 'public key' is not a curve point (verification cannot even start)."""
    cands = sorted(r for r, (v, pub) in rb.utxo.items() if W.key_by_pub(pub) is None and r not in d['used'] and pub == b'x' * 64)
    if not cands:
        return False
    ref = cands[a % len(cands)]
    sim.res.bump('probe:spend_of_noncurve_key_output')
    _add_tx(d, make_tx([ref], [(rb.utxo[ref][0], key(b % N_KEYS))], [key(b % N_KEYS)]), 0)


def f_spend_zero_key_forged_sig(sim, rb, op, d, a, b):
    """Spend of an output paying the all-zero key with a signature for which the textbook verification equation holds if
    the degenerate 'point' (0, 0) is let through (r = (kG).x, s = e/k): nobody holds a private key for it."""
    import hashlib
    import ecdsa
    from ecdsa.util import sigencode_string
    from refmodel import rules
    from skepticoin.signing import SECP256k1Signature
    cands = sorted(r for r, (v, pub) in rb.utxo.items() if pub == b'\x00' * 64 and r not in d['used'])
    if not cands:
        return False
    ref = cands[a % len(cands)]
    tx0 = make_tx([ref], [(rb.utxo[ref][0], key(b % N_KEYS))], [None])
    msg = rules.blank_message(tx0)
    curve = ecdsa.SECP256k1
    n = curve.order
    e = int.from_bytes(hashlib.sha1(msg).digest(), 'big')
    k = 2 + a % 50
    r_ = (k * curve.generator).x() % n
    s_ = (e * pow(k, -1, n)) % n
    sig = SECP256k1Signature(sigencode_string(r_, s_, n))
    sim.res.bump('probe:spend_of_zero_key_output_with_crafted_signature')
    _add_tx(d, make_tx([ref], [(rb.utxo[ref][0], key(b % N_KEYS))], [sig]), 0)


LOW_HEIGHTS = [7, 1, 499, 162_999, 100_001, 163_000 - 3]


def f_low_height_steal(sim, rb, op, d, a, b):
    """A stored parent above the horizon, a claimed height below it, coins taken with a junk signature."""
    if f_junk_sig(sim, rb, op, d, a, b) is False:
        return False
    h = LOW_HEIGHTS[b % len(LOW_HEIGHTS)]
    d['height'] = h
    d['reward_height'] = h


# ---------------------------------------------------------------- value (C02)

def f_reward_plus_one(sim, rb, op, d, a, b):
    d['reward_extra'] = 1 + (b % 3 == 2) * (a * 1000)


def f_reward_split_over(sim, rb, op, d, a, b):
    """Reward split over several outputs, each within subsidy + fees, together above it."""
    h = rb.height + 1
    allow = rules.subsidy(h) + d['fees']
    if allow <= 0:
        return False
    n = 2 + b % 4
    variant = a % 3
    if variant == 0:
        vals = [allow, 1]
    elif variant == 1:
        vals = [allow] * n
    else:
        vals = [allow - 1, 2] if allow > 1 else [allow, allow]
    d['reward'] = reward_tx(h, [(v, key((b + i) % N_KEYS)) for i, v in enumerate(vals)])


def f_reward_prev_era(sim, rb, op, d, a, b):
    """Claims the subsidy of the previous height (only differs on a halving boundary)."""
    h = rb.height + 1
    if rules.subsidy(h - 1) == rules.subsidy(h):
        return False
    sim.res.bump('probe:halving_forgery')
    d['reward_extra'] = rules.subsidy(h - 1) - rules.subsidy(h) - (a % 2) * (rules.subsidy(h - 1) - rules.subsidy(h) - 1)


def f_reward_plus_other_fee(sim, rb, op, d, a, b):
    # claims the fee of a transaction that is not in the block (fees "from the wrong state")
    txs, fees, _ = sim.build_txs(rb, [{'ins': [a + 5], 'outs': [[b, 1]], 'fee_ppm': 50_000}], set(d['used']))
    if not txs or fees <= 0:
        return False
    d['reward_extra'] = fees


def _value_tx(sim, rb, d, a, outs_fn):
    ref = _pick(sim, rb, a, d['used'])
    if ref is None:
        return False
    k = _owned(sim, rb, ref)
    v = rb.utxo[ref][0]
    outs = outs_fn(v, k)
    tx = make_tx([ref], outs, [k])
    d['others'].append(tx)
    # fees as a naive node would compute them (inputs - outputs), never negative in the reward claim
    d['fees'] += max(0, v - sum(x for x, _ in outs))


def f_out_zero(sim, rb, op, d, a, b):
    return _value_tx(sim, rb, d, a, lambda v, k: [(v, key(b % N_KEYS)), (0, k)])


def f_out_max_plus_one(sim, rb, op, d, a, b):
    return _value_tx(sim, rb, d, a, lambda v, k: [(MAX_SASHIMI + 1, k)])


def f_outs_sum_over_max(sim, rb, op, d, a, b):
    return _value_tx(sim, rb, d, a, lambda v, k: [(MAX_SASHIMI, k), (MAX_SASHIMI - a, k)])


def f_outs_exceed_inputs(sim, rb, op, d, a, b):
    return _value_tx(sim, rb, d, a, lambda v, k: [(v // 2, key(b % N_KEYS)), (v - v // 2 + 1, k)])


def f_outs_exceed_inputs_comp(sim, rb, op, d, a, b):
    """Outputs exceed inputs by a little and the reward is lowered by the same amount: total supply is conserved,
    the per-transaction rule is still broken."""
    ref = _pick(sim, rb, a, d['used'])
    if ref is None:
        return False
    k = _owned(sim, rb, ref)
    v = rb.utxo[ref][0]
    extra = 1 + b % 1000
    d['others'].append(make_tx([ref], [(v + extra, key(b % N_KEYS))], [k]))
    d['fees'] -= extra


def f_out_2_64_minus_1(sim, rb, op, d, a, b):
    return _value_tx(sim, rb, d, a, lambda v, k: [((1 << 64) - 1, k)])


def f_two_rewards(sim, rb, op, d, a, b):
    h = rb.height + 1
    d['others'].append(reward_tx(h, [(1 + a, key(b % N_KEYS))], b'second'))


def f_reward_not_first(sim, rb, op, d, a, b):
    if not d['others']:
        return False
    h = rb.height + 1
    reward = reward_tx(h, [(rules.subsidy(h) + d['fees'], d['miner'])])
    d['txs'] = d['others'] + [reward]


def f_reward_two_inputs(sim, rb, op, d, a, b):
    h = rb.height + 1
    ins = [Input(OutputReference(ZERO32, 0), CoinbaseData(h, b'')),
           Input(OutputReference(ZERO32, 0), CoinbaseData(h, b'2'))]
    d['reward'] = Transaction(ins, [Output(rules.subsidy(h) + d['fees'], d['miner'].pk)])


def f_reward_real_ref(sim, rb, op, d, a, b):
    ref = _pick(sim, rb, a, d['used'])
    if ref is None:
        return False
    h = rb.height + 1
    d['reward'] = Transaction([Input(OutputReference(ref[0], ref[1]), CoinbaseData(h, b''))],
                              [Output(rules.subsidy(h) + d['fees'], d['miner'].pk)])


def f_reward_null_ref_index(sim, rb, op, d, a, b):
    # the reward's input names the all-zero transaction id with an index other than 0: not the thin-air reference
    h = rb.height + 1
    idx = [1, 7, 255, 0x7fffffff][b % 4]
    d['reward'] = Transaction([Input(OutputReference(ZERO32, idx), CoinbaseData(h, b''))],
                              [Output(rules.subsidy(h) + d['fees'], d['miner'].pk)])


def f_low_height_mint(sim, rb, op, d, a, b):
    h = LOW_HEIGHTS[b % len(LOW_HEIGHTS)]
    d['height'] = h
    d['reward_height'] = h
    d['reward_extra'] = 20_000_000 * 100_000_000 - rules.subsidy(rb.height + 1) - d['fees']


# ---------------------------------------------------------------- header (C05)

def f_pow_not_below(sim, rb, op, d, a, b):
    if int.from_bytes(d['target'], 'big') >= (1 << 256) - 1:
        return False
    d['want_below'] = False


def _set_target(d, t):
    if t < 0 or t > (1 << 256) - 1 or t.to_bytes(32, 'big') == d['target']:
        return False
    d['target'] = t.to_bytes(32, 'big')


def f_target_plus_1(sim, rb, op, d, a, b):
    return _set_target(d, int.from_bytes(d['target'], 'big') + 1)


def f_target_minus_1(sim, rb, op, d, a, b):
    d['max_tries'] = 200000
    return _set_target(d, int.from_bytes(d['target'], 'big') - 1)


def f_target_initial(sim, rb, op, d, a, b):
    d['max_tries'] = 200000
    return _set_target(d, 1 << 248)


def _at_boundary(rb):
    return (rb.height + 1) % rules.RETARGET_PERIOD == 0


def f_target_parent_at_boundary(sim, rb, op, d, a, b):
    if not _at_boundary(rb):
        return False
    sim.res.bump('probe:boundary_forgery')
    return _set_target(d, rb.target)


def f_target_elapsed_off_by_one(sim, rb, op, d, a, b):
    if not _at_boundary(rb):
        return False
    start = sim.chain.ts_at_height(rb, rb.height + 1 - rules.RETARGET_PERIOD)
    el = d['ts'] - start + (1 if b % 2 else -1)
    sim.res.bump('probe:boundary_forgery')
    return _set_target(d, rules.retarget(rb.target, el))


def f_target_float(sim, rb, op, d, a, b):
    if not _at_boundary(rb):
        return False
    start = sim.chain.ts_at_height(rb, rb.height + 1 - rules.RETARGET_PERIOD)
    t = int(rb.target * (d['ts'] - start) / rules.RETARGET_SPAN)
    sim.res.bump('probe:boundary_forgery')
    return _set_target(d, min(t, (1 << 256) - 1))


def f_height_plus_2(sim, rb, op, d, a, b):
    d['height'] = rb.height + 2
    d['reward_height'] = rb.height + 2


def f_height_same(sim, rb, op, d, a, b):
    d['height'] = rb.height
    d['reward_height'] = rb.height


def f_height_low(sim, rb, op, d, a, b):
    h = LOW_HEIGHTS[b % len(LOW_HEIGHTS)]
    d['height'] = h
    d['reward_height'] = h
    # with the in-state rules skipped nothing else is looked at either: also lie about time and target
    if a % 2:
        d['ts'] = rb.ts - 5
    if a % 3 == 0:
        d['target'] = W.TRIVIAL_TARGET


def f_height_low_pure(sim, rb, op, d, a, b):
    h = LOW_HEIGHTS[b % len(LOW_HEIGHTS)]
    d['height'] = h
    d['reward_height'] = h


def f_reward_height_differs(sim, rb, op, d, a, b):
    d['reward_height'] = rb.height + 1 + (1 if b % 2 else -1) * (1 + a % 3)


def f_ts_equal_parent(sim, rb, op, d, a, b):
    d['ts'] = rb.ts
    d['target'] = sim.expected_target(rb, d['ts'])


def f_ts_before_parent(sim, rb, op, d, a, b):
    d['ts'] = rb.ts - 1 - (a % 100)
    if _at_boundary(rb):
        start = sim.chain.ts_at_height(rb, rb.height + 1 - rules.RETARGET_PERIOD)
        if d['ts'] - start <= 0:
            return False
    d['target'] = sim.expected_target(rb, d['ts'])


def f_ts_now_plus_31(sim, rb, op, d, a, b):
    d['now'] = d['ts'] - 31 - (a % 3 == 0) * (b % 1000)


def _ev_mut(field, a):
    def mut(ev):
        vals = {'summary_hash': ev.summary_hash, 'chain_sample': ev.chain_sample, 'block_hash': ev.block_hash}
        v = bytearray(vals[field])
        i = a % len(v)
        v[i] ^= 1 << (a % 8)
        vals[field] = bytes(v)
        return PowEvidence(vals['summary_hash'], vals['chain_sample'], vals['block_hash'])
    return mut


def f_ev_summary_hash(sim, rb, op, d, a, b):
    d['evidence_mut'] = _ev_mut('summary_hash', a + b)


def f_ev_sample(sim, rb, op, d, a, b):
    d['evidence_mut'] = _ev_mut('chain_sample', a + b)


def f_ev_block_hash(sim, rb, op, d, a, b):
    d['evidence_mut'] = _ev_mut('block_hash', a + b)


def f_ev_fake_scrypt(sim, rb, op, d, a, b):
    """Self-consistent evidence built on a made-up scrypt result (never ran scrypt): sample and block hash fit it."""
    d['fake_scrypt'] = b'fake%d-%d' % (a, b)


def f_ev_other_txs(sim, rb, op, d, a, b):
    """Evidence computed over another transaction list than the one the block carries."""
    if not d['others']:
        return False
    h = rb.height + 1
    reward = reward_tx(h, [(rules.subsidy(h) + d['fees'], d['miner'])])
    d['txs'] = [reward] + d['others']
    other_reward = reward_tx(h, [(rules.subsidy(h) + d['fees'], _other_key(d['miner'], a))])
    d['evidence_txs'] = [other_reward] + d['others']


# ---------------------------------------------------------------- structure

def f_no_txs(sim, rb, op, d, a, b):
    d['txs'] = []
    d['merkle'] = ZERO32


def f_dup_tx(sim, rb, op, d, a, b):
    if not d['others']:
        return False
    d['others'].append(d['others'][0])


def f_wrong_merkle(sim, rb, op, d, a, b):
    d['merkle'] = H('merkle', a, b).to_bytes(8, 'big') * 4


def _reward_for(rb, d):
    h = rb.height + 1
    return reward_tx(h, [(rules.subsidy(h) + d['fees'], d['miner'])])


def f_merkle_dup_last(sim, rb, op, d, a, b):
    """Header commits to the list with the last id duplicated (Bitcoin's CVE-2012-2459 shape)."""
    txs = [_reward_for(rb, d)] + d['others']
    d['txs'] = txs
    d['merkle'] = consensus.calc_merkle_root_hash(txs + [txs[-1]])


def f_merkle_reordered(sim, rb, op, d, a, b):
    if len(d['others']) < 1:
        return False
    txs = [_reward_for(rb, d)] + d['others']
    d['txs'] = txs
    d['merkle'] = consensus.calc_merkle_root_hash([txs[0]] + list(reversed(txs[1:])) if len(txs) > 2
                                                  else list(reversed(txs)))


def f_merkle_one_removed(sim, rb, op, d, a, b):
    if len(d['others']) < 1:
        return False
    txs = [_reward_for(rb, d)] + d['others']
    d['txs'] = txs
    d['merkle'] = consensus.calc_merkle_root_hash(txs[:-1])


def f_unknown_parent(sim, rb, op, d, a, b):
    # evidence must still be computable: sample from the known parent's chain, then re-point
    d['prev_override'] = H('parent', a, b).to_bytes(8, 'big') * 4
    return False  # handled by node-level checks (orphans); CoinState.add_block has no parent state to consult
