"""ledger-sim: one CoinState value chain driven through CoinState.add_block, judged by RefChain/rules.

Script vocabulary (JSON):
  config: {base: hreal|hboundary|hlow, hard: bool, k: int, elapsed: int}
  ops:    {op: mine,  tip, txs:[{ins:[int], outs:[[key,share]], fee_ppm}], miner, dt, clock, via}
          {op: offer, kind, tip, a, b, dt, clock, via}          (forgery 'kind'; a,b = small ints)
          {op: reoffer, n}                                       (offer an already stored block again)
          {op: snapshot}
"""
import hashlib
import struct

import skepticoin.consensus as consensus
import skepticoin.cheating as cheating
from skepticoin.datatypes import Block, Transaction, Input, Output, OutputReference
from skepticoin.signing import SECP256k1Signature, SignableEquivalent, CoinbaseData, SECP256k1PublicKey

from simkit.core import Result, Trace, H
from refmodel import rules
from refmodel.rules import RefChain, judge_block, MAX_SASHIMI
from world import ledger as W
from world.ledger import key, view_at, seal, mine_honest, make_tx, reward_tx, Unminable

N_KEYS = 12
# a legal output may pay to 64 bytes that are not a point on the curve; nobody can ever spend it
NONCURVE = SECP256k1PublicKey(b'x' * 64)
ZEROKEY = SECP256k1PublicKey(b'\x00' * 64)      # the all-zero "burn" key: not a curve point either
HARD_TARGET = (1 << 252).to_bytes(32, 'big')

_ORIG = {}


def reset_horizon(low: bool):
    """H-low patches the checkpoint horizon to 0; H-real leaves the real table in force."""
    if not _ORIG:
        _ORIG['max'] = consensus.MAX_KNOWN_HASH_HEIGHT
        _ORIG['known'] = consensus.KNOWN_HASHES
    if low:
        consensus.MAX_KNOWN_HASH_HEIGHT = 0
        consensus.KNOWN_HASHES = {0: _ORIG['known'][0]}
    else:
        consensus.MAX_KNOWN_HASH_HEIGHT = _ORIG['max']
        consensus.KNOWN_HASHES = _ORIG['known']


def _rule_priority(b):
    # the class of a violation names the root-cause rule when several are broken at once
    order = ['height-not-parent-plus-one', 'reward-height-differs']
    return (order.index(b[1]) if b[1] in order else len(order), b[1])


def utxo_digest(m) -> str:
    h = hashlib.sha256()
    for ref in sorted(m.keys(), key=lambda r: (r.hash, r.index)):
        o = m[ref]
        h.update(ref.hash)
        h.update(ref.index.to_bytes(4, 'big'))
        h.update(o.value.to_bytes(8, 'big', signed=False) if 0 <= o.value < 1 << 64 else str(o.value).encode())
        h.update(o.public_key.public_key)
    return h.hexdigest()


def cheap_fp(cs):
    return (cs.current_chain_hash, len(cs.block_by_hash), tuple(sorted(cs.heads.keys())),
            len(cs.unspent_transaction_outs_by_hash), len(cs.block_by_height_by_hash))


def full_fp(cs):
    h = hashlib.sha256()
    h.update(cs.current_chain_hash or b'-')
    for bid in sorted(cs.block_by_hash.keys()):
        h.update(bid)
        h.update(utxo_digest(cs.unspent_transaction_outs_by_hash[bid]).encode())
        bh = cs.block_by_height_by_hash[bid]
        h.update(len(bh).to_bytes(4, 'big'))
    for t in sorted(cs.heads.keys()):
        h.update(b't' + t)
    return h.hexdigest()


def compare_utxo(cs, chain: RefChain, bid):
    """real per-block unspent set == RefLedger replay."""
    real = cs.unspent_transaction_outs_by_hash[bid]
    ref = chain.blocks[bid].utxo
    if len(real) != len(ref):
        return False
    for r, o in real.items():
        v = ref.get((r.hash, r.index))
        if v is None or v != (o.value, o.public_key.public_key):
            return False
    return True


class LedgerSim:
    def __init__(self, config: dict, prop: str, res: Result, trace: Trace):
        self.cfg = config
        self.prop = prop
        self.res = res
        self.trace = trace
        base = config.get('base', 'hreal')
        self.base_kind = base
        hard = bool(config.get('hard'))
        for i in range(N_KEYS):
            key(i)
        W.key_by_pub(key(0).pub)
        filler_ts = None
        easy = None
        if base in ('hlow', 'hlow_easy'):
            reset_horizon(True)
            cs, root = W.genesis_base()
            self.cs_genesis = cs
            if base == 'hlow_easy':
                # block 1 states the trivial target and is trusted history (added the way bulk download adds
                # blocks: by-itself valid, never validated in chain); everything above it inherits the trivial
                # target and is fully valid relative to its parent.
                cs, easy = W.easy_block_one(cs)
        elif base == 'hhalving':
            # a trusted tip 1-4 blocks below a subsidy halving (k-th era boundary), far above the checkpoint horizon
            reset_horizon(False)
            kk = config.get('k', 1)
            h0 = kk * 1_050_000 - 1 - config.get('j', 0) % 4
            cs, root, _f = W.hollow_base_far(h0, HARD_TARGET if hard else W.TRIVIAL_TARGET, salt=config.get('salt', 0))
            fts = W.BASE_TS - 10_000_000
            filler_ts = (lambda h: fts)
        elif base == 'hboundary2':
            # two trusted tips whose histories differ at the start of the retarget period being closed
            reset_horizon(False)
            h0 = 171_359
            e1, e2 = config.get('elapsed', 1_209_600), config.get('elapsed2', 604_800)
            st1, st2 = W.BASE_TS - e1, W.BASE_TS - e2
            cs, root, root2 = W.two_root_base(h0, HARD_TARGET if hard else W.TRIVIAL_TARGET, 171_360 - 10_080, st1, st2,
                                              salt=config.get('salt', 0))
            fts = W.BASE_TS - 10_000_000
            filler_ts = (lambda h: st1 if h == 171_360 - 10_080 else fts)
            self.second_root = (root2, (lambda h: st2 if h == 171_360 - 10_080 else fts))
        elif base == 'hboundary':
            reset_horizon(False)
            k = 2 + config.get('k', 0) % 5
            h0 = 171_360 - k
            elapsed = config.get('elapsed', 1_209_600)
            self.start_ts = W.BASE_TS - elapsed
            if config.get('salt'):
                cs, root, _f = W.hollow_base_far(h0, HARD_TARGET if hard else W.TRIVIAL_TARGET, salt=config['salt'],
                                                 over={171_360 - 10_080: W._filler_block(self.start_ts)})
            else:
                cs, root = W.hollow_base_with_start(h0, HARD_TARGET if hard else W.TRIVIAL_TARGET,
                                                    171_360 - 10_080, self.start_ts)
            st = self.start_ts
            fts = W.BASE_TS - 10_000_000
            filler_ts = (lambda h: st if h == 171_360 - 10_080 else fts)
        else:
            reset_horizon(False)
            if config.get('salt'):
                # a base of this run's own (O(1) index): no object of this run exists in any other run of the process
                cs, root, _f = W.hollow_base_far(W.H_REAL, HARD_TARGET if hard else W.TRIVIAL_TARGET, salt=config['salt'])
            else:
                cs, root, _f = W.hollow_base(W.H_REAL, HARD_TARGET if hard else W.TRIVIAL_TARGET)
            fts = W.BASE_TS - 10_000_000
            filler_ts = (lambda h: fts)
        self.cs = cs
        self.chain = RefChain(filler_ts)
        self.chain.add_root(root)
        self.stored = [rules.block_id(root)]
        self.block_objs = {self.stored[0]: root}
        self.trusted = set()
        if getattr(self, 'second_root', None) is not None:
            r2, f2 = self.second_root
            rb2 = self.chain.add_root(r2)
            self.chain.filler_ts_by_root = {rb2.id: f2}
            self.stored.append(rb2.id)
            self.block_objs[rb2.id] = r2
            self.trusted.add(rb2.id)
        if easy is not None:
            self.trusted.add(rules.block_id(easy))
            self.chain.add(easy)
            self.stored.append(rules.block_id(easy))
            self.block_objs[self.stored[-1]] = easy
        self.snapshots = []
        self.sig_cache = {}
        self.dead = False
        self._anc_cache = {}
        self.rejected_cands = []      # forged candidates the node has already refused once (offered again later)

    # ---- helpers
    def parent_of(self, t):
        return self.chain.blocks[self.stored[t % len(self.stored)]]

    def utxo_list(self, rb, exclude=()):
        # spendable by the harness: outputs owned by pool keys (the genesis reward is not)
        return sorted(k for k, v in rb.utxo.items() if k not in exclude and W.key_by_pub(v[1]) is not None)

    def expected_target(self, rb, ts):
        t = self.chain.expected_target(rb, ts)
        return t.to_bytes(32, 'big')

    def evidence_tool(self, block):
        view = view_at(self.cs, block.header.summary.previous_block_hash)
        return consensus.construct_pow_evidence(view, block.header.summary, block.header.summary.height,
                                                block.transactions)

    def build_txs(self, rb, specs, used=None):
        """Honest transactions spending the parent's ledger.  Returns (txs, total_fees, used_refs)."""
        used = set() if used is None else used
        txs = []
        fees = 0
        for sp in specs:
            avail = self.utxo_list(rb, used)
            if not avail:
                break
            refs = []
            for i in sp.get('ins', [0]):
                r = avail[i % len(avail)]
                if r not in refs:
                    refs.append(r)
            total = sum(rb.utxo[r][0] for r in refs)
            if total <= 0:
                continue          # only outputs worth nothing were picked: nothing can be paid from them
            fee = total * sp.get('fee_ppm', 0) // 1_000_000
            if fee >= total:
                fee = total - 1
            rest = total - fee
            outs_spec = sp.get('outs', [[0, 1]])
            shares = [max(1, s) for _, s in outs_spec]
            outs = []
            left = rest
            for n, (kk, _s) in enumerate(outs_spec):
                if n == len(outs_spec) - 1:
                    v = left
                else:
                    v = max(1, rest * shares[n] // (sum(shares) + 1))
                    v = min(v, left - (len(outs_spec) - 1 - n))
                if v <= 0:
                    continue
                outs.append((v, NONCURVE if kk == 99 else (ZEROKEY if kk == 98 else key(kk % N_KEYS))))
                left -= v
            if not outs:
                continue
            fee = total - sum(v for v, _ in outs)
            signers = [W.key_by_pub(rb.utxo[r][1]) for r in refs]
            txs.append(make_tx(refs, outs, signers))
            used.update(refs)
            fees += fee
        return txs, fees, used

    def sample_from_ancestors(self, block, cs):
        """Necessary condition, independent of the selection arithmetic: every 4-byte slice of the chain sample occurs
        (with wrap-around) in the encoding of some ancestor of the block - the selected blocks are ancestors."""
        s0 = block.header.summary
        if s0.height == 0:
            return True
        sample = block.header.pow_evidence.chain_sample
        if len(sample) != 32:
            return True
        sers = []
        idx = cs.block_by_height_by_hash.get(s0.previous_block_hash)
        if idx is None:
            return True
        if hasattr(idx, 'over'):           # O(1) trusted base: the shared filler plus explicit entries
            base_blocks = [idx.filler] + [b for h, b in idx.over.items() if h < s0.height]
        else:
            key_ = ('base', id(idx))
            base_blocks = self._anc_cache.get(key_)
            if base_blocks is None:
                seen, base_blocks = set(), []
                for h, b in idx.items():
                    if h < s0.height and id(b) not in seen:
                        seen.add(id(b))
                        base_blocks.append(b)
                if len(idx) > 1000:
                    self._anc_cache[key_] = base_blocks
        for b in base_blocks:
            k_ = id(b)
            ser = self._anc_cache.get(k_)
            if ser is None:
                raw = b.serialize()
                ser = self._anc_cache[k_] = raw + raw[:3]
            sers.append(ser)
        for i in range(0, 32, 4):
            sl = sample[i:i + 4]
            if not any(sl in ser for ser in sers):
                return False
        self.res.bump('evidence_samples_checked')
        return True

    # ---- delivery + oracle
    def deliver(self, block, now, expect, label):
        """expect: 'honest' (assembled by the node's own path in a valid setting), 'forgery', 'free'."""
        res = self.res
        if label.get('via') == 'bytes':
            try:
                block = Block.deserialize(block.serialize())
            except Exception:
                res.bump('undecodable_candidate')
                return None
        broken = judge_block(self.chain, block, now, self.evidence_tool, consensus.calc_merkle_root_hash,
                             self.sig_cache)
        before = self.cs
        fp0 = cheap_fp(before)
        try:
            after = before.add_block(block, now)
            accepted = True
            err = ''
        except Exception as e:  # any exception type counts as rejection
            accepted = False
            after = None
            err = type(e).__name__
        bid = rules.block_id(block)
        self.trace.add('deliver', label.get('kind', 'mine'), bid, int(accepted), err, len(broken))
        if cheap_fp(before) != fp0:
            res.violate('C01', 'C01/state-changed-by-attempt', 'receiver state differs after %s' % label)
            self.dead = True
            return None
        if accepted:
            if bid in self.chain.blocks:
                # an already stored block offered again: outside every quantifier here (the relay path
                # dedupes by id before CoinState is involved); the previous value is kept
                res.bump('duplicate_accepted')
                return None
            if broken:
                own = sorted((b for b in broken if b[0] == self.prop), key=_rule_priority)
                if own:
                    p, rule = own[0]
                    res.violate(p, '%s/accepted-%s' % (p, rule),
                                'block accepted although: %s (candidate %s)' % (broken, label),
                                {'rules': [list(b) for b in broken]})
                else:
                    res.bump('other_property_anomaly')
                    res.bump('other:' + broken[0][0] + '/' + broken[0][1])
                self.dead = True   # real state and reference now disagree; stop interpreting
                return None
            if self.prop == 'C05' and not self.sample_from_ancestors(block, before):
                res.violate('C05', 'C05/evidence-sample-not-from-ancestors',
                            'an accepted block carries proof-of-work evidence whose chain sample contains bytes that occur in none '
                            'of the block\'s ancestors (%s)' % label.get('kind', 'mine'))
                self.dead = True
                return None
            self.cs = after
            self.chain.add(block)
            self.stored.append(bid)
            self.block_objs[bid] = block
            res.bump('accepted')
            return bid
        # rejected
        res.bump('rejected')
        if broken and expect == 'forgery' and len(self.rejected_cands) < 12:
            self.rejected_cands.append((block, now, dict(label)))
        if expect == 'honest' and not broken and self.cfg.get('trusted_build'):
            # world building for a network check: a block the reference holds valid but this tree's validation refuses still
            # becomes part of the starting chains (as trusted history, the way bulk download installs blocks); what the nodes
            # then make of it is the check's business, not the builder's
            try:
                self.cs = before.add_block_no_validation(block)
            except Exception:
                self.dead = True
                return None
            self.chain.add(block)
            self.stored.append(bid)
            self.block_objs[bid] = block
            res.bump('accepted')
            res.bump('probe:reference_valid_block_refused_by_validation_installed_as_history')
            return bid
        if expect == 'honest' and not broken:
            if self.prop in ('C05', 'C01', 'C02'):
                res.violate(self.prop, '%s/valid-block-rejected' % self.prop,
                            'block assembled by the node on a valid chain was rejected (%s): %s' % (err, label))
            self.dead = True
            return None
        if expect == 'honest' and broken:
            own = [b for b in broken if b[0] == 'C05']
            if self.prop == 'C05' and own:
                res.violate('C05', 'C05/assembled-block-breaks-%s' % own[0][1],
                            'block assembled by the node breaks %s: %s' % (broken, label))
            self.dead = True
            return None
        if not broken:
            res.bump('free_rejected')
            res.bump('free_rejected:' + label.get('kind', '?'))
        return None

    # ---- ops
    def op_mine(self, op):
        rb = self.parent_of(op.get('tip', -1))
        txs, fees, _ = self.build_txs(rb, op.get('txs', []))
        ts = rb.ts + max(1, op.get('dt', 60))
        if op.get('ts_abs') is not None:
            ts = max(rb.ts + 1, op['ts_abs'])
        now = ts + max(-30, op.get('clock', 0))
        view = view_at(self.cs, rb.id)
        # miner's free-form reward data: the run's salt, an explicit tag, padded to a seeded length (0..200 bytes)
        data = (b's%d' % self.cfg['salt']) if self.cfg.get('salt') else op.get('data', '').encode()
        dl = op.get('data_len')
        if dl is not None and dl > len(data):
            data = data + bytes((dl * 7 + i * 13) % 251 for i in range(dl - len(data)))
        data = data[:200]
        if self.cfg.get('nopow'):
            # blocks that enter state the way bulk download adds them: no proof of work, no validation
            block = consensus.construct_block_for_mining(view, list(txs), key(op.get('miner', 0) % N_KEYS).pk, ts,
                                                         data, op.get('nonce0', 0))
            bid = rules.block_id(block)
            if bid in self.chain.blocks:
                self.res.bump('duplicate_accepted')
                return
            self.cs = self.cs.add_block_no_validation(block)
            self.chain.add(block)
            self.stored.append(bid)
            self.block_objs[bid] = block
            self.res.bump('accepted')
            return
        try:
            if op.get('fat'):
                # a block of (almost) the maximum size: the reward is paid out over very many outputs of 1 sashimi, the free
                # data pads the rest (the size limit is inclusive; honest blocks may be this large)
                from skepticoin.params import MAX_BLOCK_SIZE
                total = rules.subsidy(rb.height + 1) + fees
                tgt = self.expected_target(rb, ts)

                def assemble(n_out, dlen):
                    outs_ = [(1, key(j_ % N_KEYS)) for j_ in range(n_out - 1)] + [(total - (n_out - 1), key(op.get('miner', 0) % N_KEYS))]
                    cb_ = W.reward_tx(rb.height + 1, outs_, (data + b'.' * 200)[:dlen])
                    return W.seal(view, rb.height + 1, rb.id, ts, tgt, [cb_] + list(txs), nonce0=op.get('nonce0', 0))
                dl0 = min(len(data), 100)
                s1, s2 = len(assemble(1, dl0).serialize()), len(assemble(2, dl0).serialize())
                n_out = 1 + (MAX_BLOCK_SIZE - op.get('fat_short', 0) - s1) // (s2 - s1)
                block = assemble(n_out, dl0)
                short = MAX_BLOCK_SIZE - op.get('fat_short', 0) - len(block.serialize())
                if 0 < short <= 200 - dl0:
                    block = assemble(n_out, dl0 + short)
                self.res.bump('probe:block_of_maximum_size' if len(block.serialize()) >= MAX_BLOCK_SIZE - 31 else 'probe:block_near_maximum_size')
                if len(block.serialize()) == MAX_BLOCK_SIZE:
                    self.res.bump('probe:block_of_exactly_the_maximum_size')
            elif op.get('reward_outs'):
                # an honest block whose reward is split over several outputs (some may be worth nothing: the rules bound the
                # reward's total only), sealed with the repo's constructors
                total = rules.subsidy(rb.height + 1) + fees
                spec = op['reward_outs']
                shares = sum(max(0, sh) for _k, sh in spec) or 1
                outs, left = [], total
                for n_, (kk, sh) in enumerate(spec):
                    v = left if n_ == len(spec) - 1 and sh > 0 else (total * max(0, sh)) // shares
                    v = min(v, left)
                    outs.append((v, key(kk % N_KEYS)))
                    left -= v
                cb = W.reward_tx(rb.height + 1, outs, data)
                tgt = self.expected_target(rb, ts)
                block = W.seal(view, rb.height + 1, rb.id, ts, tgt.to_bytes(32, 'big') if isinstance(tgt, int) else tgt, [cb] + list(txs),
                               nonce0=op.get('nonce0', 0))
                self.res.bump('probe:reward_split_over_several_outputs')
                if any(v == 0 for v, _ in outs):
                    self.res.bump('probe:reward_output_worth_nothing')
            else:
                block = mine_honest(view, txs, key(op.get('miner', 0) % N_KEYS), ts, nonce0=op.get('nonce0', 0), data=data)
        except Unminable:
            self.res.bump('unminable')
            return
        except Exception as e:
            # the node's own block assembly raised on a valid chain with valid pending transactions
            self.res.bump('assembly_raised')
            if self.prop == 'C05':
                self.res.violate('C05', 'C05/assembly-raised', 'block assembly on a valid chain raised %s: %s' % (type(e).__name__, e))
            self.dead = True
            return
        # C05/C12 clause on the assembled block: reward == subsidy + fees to the miner's key
        if block.header.summary.height % rules.RETARGET_PERIOD == 0:
            self.res.bump('probe:retarget_boundary_crossed')
        if block.header.summary.height % rules.HALVING == 0:
            self.res.bump('probe:halving_boundary_crossed')
        old_head = self.cs.current_chain_hash
        bid = self.deliver(block, now, 'honest', {'kind': 'mine', 'via': op.get('via', 'memory'), 'op': op})
        if bid is not None:
            if len(txs):
                self.res.bump('probe:block_with_transactions')
            if self.cs.current_chain_hash != old_head and rb.id != old_head:
                self.res.bump('probe:reorganisation')
            if rb.children > 1:
                self.res.bump('probe:fork_created')

    def op_reoffer(self, op):
        bid = self.stored[op.get('n', 0) % len(self.stored)]
        if self.chain.blocks[bid].parent is None:
            return
        blk = self.block_objs[bid]
        fp0 = full_fp(self.cs) if len(self.stored) < 30 else None
        try:
            after = self.cs.add_block(blk, blk.header.summary.timestamp)
        except Exception:
            self.res.bump('reoffer_rejected')
            return
        self.res.bump('reoffer_accepted')
        if fp0 is not None and full_fp(after) != fp0:
            # Re-adding a stored block is not forbidden by C01-C05; C04 judges heads. Only count.
            self.res.bump('probe:reoffer_changed_state')
        # keep the previous value: the reference has no notion of "arrived twice"

    def op_reoffer_rejected(self, op):
        """A candidate that was refused before is offered again (same bytes), possibly much later: whatever the node
        remembered from the first attempt, the verdict must be the same."""
        if not self.rejected_cands:
            return
        block, now, label = self.rejected_cands[op.get('n', 0) % len(self.rejected_cands)]
        if block.header.summary.previous_block_hash not in self.chain.blocks:
            return
        lab = dict(label, kind='again:' + str(label.get('kind')), via=op.get('via', 'memory'))
        self.res.bump('probe:refused_candidate_offered_again')
        self.deliver(block, now, 'forgery', lab)

    def op_rebundle_rejected(self, op):
        """The transactions of a refused block come back inside a different block on the same parent."""
        if not self.rejected_cands:
            return
        block, now, label = self.rejected_cands[op.get('n', 0) % len(self.rejected_cands)]
        s0 = block.header.summary
        rb = self.chain.blocks.get(s0.previous_block_hash)
        if rb is None or len(block.transactions) < 2 or s0.height != rb.height + 1:
            return
        from refmodel.rules import is_reward_shape
        others = [t for t in block.transactions[1:] if not is_reward_shape(t)]
        if not others:
            return
        try:
            reward = reward_tx(s0.height, [(rules.subsidy(s0.height), key(op.get('miner', 0) % N_KEYS))], b'again')
            blk = seal(view_at(self.cs, rb.id), s0.height, rb.id, rb.ts + max(1, op.get('dt', 7)),
                       self.expected_target(rb, rb.ts + max(1, op.get('dt', 7))), [reward] + others)
        except (Unminable, ValueError, OverflowError, KeyError, struct.error, TypeError):
            return
        lab = dict(label, kind='rebundled:' + str(label.get('kind')), via=op.get('via', 'memory'))
        self.res.bump('probe:refused_transactions_in_another_block')
        self.deliver(blk, blk.header.summary.timestamp, 'forgery', lab)

    def op_snapshot(self, op):
        if len(self.snapshots) < 4:
            self.snapshots.append((self.cs, full_fp(self.cs)))

    def op_offer(self, op):
        from engines import forgeries
        rb = self.parent_of(op.get('tip', -1))
        kind = op['kind']
        try:
            made = forgeries.build(self, kind, rb, op)
        except Unminable:
            self.res.bump('unminable')
            return
        except (ValueError, OverflowError, KeyError, IndexError, TypeError, struct.error):
            made = None   # the forged value cannot even be constructed / encoded: nothing a peer could send
        if made is None:
            self.res.bump('forgery_degenerate:' + kind)
            return
        block, now = made
        self.res.bump('forgery:' + kind)
        self.res.distinct.add('forge:%s:%s:%s' % (kind, self.base_kind, op.get('via', 'memory')))
        self.deliver(block, now, 'forgery', {'kind': kind, 'via': op.get('via', 'memory'), 'op': op})

    def run(self, ops):
        for n, op in enumerate(ops):
            if self.dead:
                break
            getattr(self, 'op_' + op['op'])(op)
            self.res.events += 1
        self.final_checks()

    def final_checks(self):
        res = self.res
        if self.dead:
            return
        # every stored block's ledger equals the reference replay (C01 state clause / C02 conservation)
        for bid in self.stored:
            if not compare_utxo(self.cs, self.chain, bid):
                res.violate(self.prop, '%s/ledger-differs-from-replay' % self.prop,
                            'unspent set at %s differs from replay' % bid.hex()[:16])
                return
            rb = self.chain.blocks[bid]
            if rb.parent is not None and bid not in self.trusted:
                if rb.total > rb.parent.total + rules.subsidy(rb.height):
                    res.violate('C02', 'C02/supply-grew-more-than-subsidy',
                                'total after %s exceeds parent total + subsidy' % bid.hex()[:16])
                    return
        for cs, fp in self.snapshots:
            if full_fp(cs) != fp:
                res.violate('C01', 'C01/earlier-snapshot-changed', 'a chain state value obtained earlier changed')
                return
