"""Independent proof-of-work evidence computation, used ONLY by C18 where recorded blocks of the real
network are the ground truth.  Works on raw bytes with its own minimal parser; hash primitives are
called directly (hashlib, scrypt), never through skepticoin.hash or the repo codecs."""
import hashlib
import struct

import scrypt as _scrypt


def sha256d(b):
    return hashlib.sha256(hashlib.sha256(b).digest()).digest()


def read_vlq(b, pos):
    val = 0
    while True:
        x = b[pos]
        pos += 1
        val += x % 128
        if x < 128:
            return val, pos
        val *= 128


def split_block(raw: bytes):
    """-> dict(height, prev, merkle, ts, target, nonce, summary_bytes, evidence (3 parts), header_bytes, txlist_bytes)"""
    assert raw[0] == 0
    height, p = read_vlq(raw, 1)
    s0 = 1
    prev = raw[p:p + 32]
    merkle = raw[p + 32:p + 64]
    (ts,) = struct.unpack('>I', raw[p + 64:p + 68])
    target = raw[p + 68:p + 100]
    (nonce,) = struct.unpack('>I', raw[p + 100:p + 104])
    s1 = p + 104
    ev = (raw[s1:s1 + 32], raw[s1 + 32:s1 + 64], raw[s1 + 64:s1 + 96])
    h1 = s1 + 96
    return {'height': height, 'prev': prev, 'merkle': merkle, 'ts': ts, 'target': target, 'nonce': nonce,
            'summary_bytes': raw[s0:s1], 'evidence': ev, 'header_bytes': raw[:h1], 'txlist_bytes': raw[h1:]}


def evidence(summary_bytes: bytes, height: int, chain_bytes_by_height, txlist_bytes: bytes):
    summary_hash = _scrypt.hash(summary_bytes, height.to_bytes(8, 'big'), N=1 << 15, r=8, p=1, buflen=32)
    if height == 0:
        sample = b'\x00' * 32
    else:
        cur = summary_hash
        parts = []
        for i in range(8):
            h = int.from_bytes(cur[:8], 'big') % height
            blk = chain_bytes_by_height(h)
            start = int.from_bytes(cur[8:12], 'big') % len(blk)
            out = b''
            while len(out) < 4:
                out += blk[start:start + 4 - len(out)]
                start = 0
            parts.append(out)
            if i != 7:
                cur = sha256d(cur + out)
        sample = b''.join(parts)
    block_hash = hashlib.blake2b(summary_hash + sample + txlist_bytes, digest_size=32).digest()
    return summary_hash, sample, block_hash
