"""Reference rules, written from the property statements (C01, C02, C05, C09 structure), not from the code.

Semantic only: sets, sums, orders, times.  Encodings, ids' byte layout, merkle roots and the
proof-of-work evidence are obtained with the repo's own functions used as tools (a self-consistent
change of an encoding must not raise an alarm here; C18 pins the real network's bytes).
"""
import hashlib

MAX_SASHIMI = 2_099_999_986_350_000
HALVING = 1_050_000
INITIAL_SUBSIDY = 10 * 100_000_000
RETARGET_PERIOD = 10_080
RETARGET_SPAN = 1_209_600
MAX_FUTURE = 30
MAX_BLOCK_SIZE = 200_000
ZERO32 = b'\x00' * 32


def sha256d(b: bytes) -> bytes:
    return hashlib.sha256(hashlib.sha256(b).digest()).digest()


def subsidy(height: int) -> int:
    halvings = height // HALVING
    if halvings >= 64:
        return 0
    return INITIAL_SUBSIDY // (2 ** halvings)


def retarget(prev_target: int, elapsed: int) -> int:
    r = (prev_target * elapsed) // RETARGET_SPAN
    if r > 2 ** 256 - 1:
        r = 2 ** 256 - 1
    return r


def tx_id(tx) -> bytes:
    return sha256d(tx.serialize())


def block_id(block) -> bytes:
    return sha256d(block.header.serialize())


class RefBlock:
    __slots__ = ('id', 'parent', 'height', 'ts', 'target', 'utxo', 'arrival', 'total', 'children')

    def __init__(self, id, parent, height, ts, target, utxo, arrival):
        self.id = id
        self.parent = parent          # RefBlock or None
        self.height = height
        self.ts = ts
        self.target = target          # int
        self.utxo = utxo              # dict (txid, index) -> (value, pubkey bytes)
        self.arrival = arrival
        self.total = sum(v for v, _ in utxo.values())
        self.children = 0


class RefChain:
    """Block tree + per-block ledger obtained by replay (RefLedger) + fork choice (RefForkChoice)."""

    def __init__(self, filler_ts=None):
        self.blocks = {}          # id -> RefBlock
        self.order = []           # ids in arrival order
        self.filler_ts = filler_ts or (lambda h: None)   # hollow base: timestamp of the never-validated heights

    def add_root(self, block):
        """Trusted root (genesis or hollow base tip): only its outputs are replayed."""
        utxo = {}
        apply_block_to_utxo(utxo, block, check=False)
        rb = RefBlock(block_id(block), None, block.header.summary.height, block.header.summary.timestamp,
                      int.from_bytes(block.header.summary.target, 'big'), utxo, len(self.order))
        self.blocks[rb.id] = rb
        self.order.append(rb.id)
        return rb

    def add(self, block):
        """Record an accepted block (the caller has already judged it)."""
        s = block.header.summary
        parent = self.blocks[s.previous_block_hash]
        utxo = dict(parent.utxo)
        apply_block_to_utxo(utxo, block, check=False)
        rb = RefBlock(block_id(block), parent, parent.height + 1, s.timestamp, int.from_bytes(s.target, 'big'),
                      utxo, len(self.order))
        parent.children += 1
        self.blocks[rb.id] = rb
        self.order.append(rb.id)
        return rb

    def ts_at_height(self, rb: RefBlock, h: int):
        cur = rb
        while cur is not None:
            if cur.height == h:
                return cur.ts
            if cur.parent is None:
                break
            cur = cur.parent
        # below a trusted root: the never-validated heights of THAT root's own history
        per_root = getattr(self, 'filler_ts_by_root', {}).get(cur.id if cur is not None else None)
        if per_root is not None:
            return per_root(h)
        return self.filler_ts(h)

    def expected_target(self, parent: RefBlock, ts: int) -> int:
        height = parent.height + 1
        if height % RETARGET_PERIOD == 0:
            start_ts = self.ts_at_height(parent, height - RETARGET_PERIOD)
            if start_ts is None:
                return None
            return retarget(parent.target, ts - start_ts)
        return parent.target

    # ---- fork choice (C04): first-arrived block of greatest height
    def head(self) -> RefBlock:
        best = None
        for i in self.order:
            b = self.blocks[i]
            if best is None or b.height > best.height:
                best = b
        return best

    def tips(self):
        return {i for i, b in self.blocks.items() if b.children == 0}

    def ancestors(self, rb: RefBlock):
        out = {}
        cur = rb
        while cur is not None:
            out[cur.height] = cur.id
            cur = cur.parent
        return out


def apply_block_to_utxo(utxo: dict, block, check: bool = True):
    """Replay: remove spent, add created.  With check=False missing references are ignored (trusted roots)."""
    txs = block.transactions
    for n, tx in enumerate(txs):
        if n > 0:
            for inp in tx.inputs:
                key = (inp.output_reference.hash, inp.output_reference.index)
                if key in utxo:
                    del utxo[key]
                elif check:
                    raise KeyError(key)
        tid = tx_id(tx)
        for i, out in enumerate(tx.outputs):
            utxo[(tid, i)] = (out.value, out.public_key.public_key)


def blank_message(tx) -> bytes:
    """The message a spend signs: every reference and every output, signatures blanked.
    Built here from the parts (not via Transaction.signable_equivalent)."""
    from skepticoin.datatypes import Transaction, Input
    from skepticoin.signing import SignableEquivalent
    return Transaction(
        inputs=[Input(i.output_reference, SignableEquivalent()) for i in tx.inputs],
        outputs=list(tx.outputs)).serialize()


def signature_ok(sig_obj, pubkey: bytes, message: bytes) -> bool:
    import ecdsa
    from skepticoin.signing import SECP256k1Signature
    if type(sig_obj) is not SECP256k1Signature:
        return False
    try:
        vk = ecdsa.VerifyingKey.from_string(pubkey, curve=ecdsa.SECP256k1)
        return bool(vk.verify(sig_obj.signature, message))
    except Exception:
        return False


def is_reward_shape(tx) -> bool:
    from skepticoin.signing import CoinbaseData
    if len(tx.inputs) != 1:
        return False
    r = tx.inputs[0].output_reference
    return r.hash == ZERO32 and r.index == 0 and isinstance(tx.inputs[0].signature, CoinbaseData)


def judge_transaction(tx, utxo: dict, sig_cache=None):
    """Rules for an ordinary (non-reward) transaction against a ledger state.
    Returns (broken_rules, fee or None).  broken_rules: list of (property, rule)."""
    broken = []
    if len(tx.inputs) == 0:
        broken.append(('C01', 'no-inputs'))
    seen = set()
    total_in = 0
    missing = False
    msg = None
    for inp in tx.inputs:
        key = (inp.output_reference.hash, inp.output_reference.index)
        if key == (ZERO32, 0):
            broken.append(('C01', 'null-reference-in-ordinary-transaction'))
            missing = True
            continue
        if key in seen:
            broken.append(('C01', 'reference-twice-in-transaction'))
            continue
        seen.add(key)
        if key not in utxo:
            broken.append(('C01', 'spends-missing-or-spent-output'))
            missing = True
            continue
        value, pub = utxo[key]
        total_in += value
        if msg is None:
            msg = blank_message(tx)
        ck = (pub, inp.signature.serialize() if hasattr(inp.signature, 'serialize') else None, msg)
        ok = sig_cache.get(ck) if sig_cache is not None else None
        if ok is None:
            ok = signature_ok(inp.signature, pub, msg)
            if sig_cache is not None:
                sig_cache[ck] = ok
        if not ok:
            broken.append(('C01', 'signature-does-not-verify'))
    if len(tx.serialize()) > MAX_BLOCK_SIZE:
        broken.append(('C09', 'transaction-larger-than-a-block'))      # (it can never be part of a block of legal size)
    total_out = 0
    for out in tx.outputs:
        if not (0 < out.value <= MAX_SASHIMI):
            broken.append(('C02', 'output-value-out-of-range'))
        total_out += out.value
    if not (0 < total_out <= MAX_SASHIMI):
        broken.append(('C02', 'output-total-out-of-range'))
    fee = None
    if not missing:
        if total_out > total_in:
            broken.append(('C02', 'outputs-exceed-inputs'))
        fee = total_in - total_out
    return broken, fee


def judge_block(chain: RefChain, block, now: int, evidence_tool=None, merkle_tool=None, sig_cache=None):
    """Every rule of C01/C02/C05 (+ the structural ones C09/C20 rely on) for a candidate block.
    Returns list of (property, rule).  Empty list = nothing the statements forbid.
    evidence_tool(block) -> PowEvidence recomputed by the repo's constructor, or None to skip."""
    s = block.header.summary
    broken = []
    parent = chain.blocks.get(s.previous_block_hash)
    if parent is None:
        return [('C05', 'unknown-parent')]

    # --- C05 header rules
    bid = block_id(block)
    if not (int.from_bytes(bid, 'big') < int.from_bytes(s.target, 'big')):
        broken.append(('C05', 'id-not-below-target'))
    exp_t = chain.expected_target(parent, s.timestamp)
    if exp_t is not None and int.from_bytes(s.target, 'big') != exp_t:
        broken.append(('C05', 'target-not-prescribed'))
    if len(s.target) != 32:
        broken.append(('C05', 'target-not-prescribed'))
    if s.height != parent.height + 1:
        broken.append(('C05', 'height-not-parent-plus-one'))
    if not (s.timestamp > parent.ts):
        broken.append(('C05', 'timestamp-not-after-parent'))
    if not (s.timestamp <= now + MAX_FUTURE):
        broken.append(('C05', 'timestamp-too-far-ahead'))

    txs = block.transactions
    # --- structure
    if len(txs) == 0:
        broken.append(('C09', 'no-transactions'))
        return broken
    if len(block.serialize()) > MAX_BLOCK_SIZE:
        broken.append(('C09', 'oversize'))
    reward = txs[0]
    if not is_reward_shape(reward):
        broken.append(('C02', 'first-transaction-not-a-reward'))
    else:
        if reward.inputs[0].signature.height != s.height:
            broken.append(('C05', 'reward-height-differs'))
    for tx in txs[1:]:
        if is_reward_shape(tx):
            broken.append(('C02', 'second-reward-transaction'))
    if merkle_tool is not None and s.merkle_root_hash != merkle_tool(txs):
        broken.append(('C09', 'merkle-root-mismatch'))
    ids = [tx_id(t) for t in txs[1:]]
    if len(set(ids)) != len(ids):
        broken.append(('C09', 'duplicate-transaction'))

    # --- C01 / C02 per transaction, against the parent's ledger
    seen_refs = set()
    fees = 0
    fees_known = True
    for tx in txs[1:]:
        b, fee = judge_transaction(tx, parent.utxo, sig_cache)
        broken.extend(b)
        for inp in tx.inputs:
            key = (inp.output_reference.hash, inp.output_reference.index)
            if key in seen_refs:
                broken.append(('C01', 'reference-twice-in-block'))
            seen_refs.add(key)
        if fee is None:
            fees_known = False
        else:
            fees += fee
    if is_reward_shape(reward) and fees_known:
        if sum(o.value for o in reward.outputs) > subsidy(parent.height + 1) + fees:
            broken.append(('C02', 'reward-exceeds-subsidy-plus-fees'))

    # --- evidence (C05 last clause), recomputed with the repo's constructor as a tool
    if evidence_tool is not None and not broken:
        ev = evidence_tool(block)
        if ev is not None:
            he = block.header.pow_evidence
            if (he.summary_hash, he.chain_sample, he.block_hash) != (ev.summary_hash, ev.chain_sample, ev.block_hash):
                broken.append(('C05', 'evidence-differs-from-recomputation'))
    return broken
