#!/venv/bin/python
"""Sensitivity self-test: apply each catalogued mutant to a scratch worktree of /repo (outside /repo and
/verif), optionally run the repo's test suite there (must stay green), run the property's quick check
against it via VERIF_REPO, expect exit 1 with a reproducing replay.  The worktree is removed afterwards.

  tools/mutants.py list
  tools/mutants.py run [--tests] [--prop Cnn] [id ...]
"""
import json, os, shutil, subprocess, sys, tempfile, time
HERE = os.path.dirname(os.path.dirname(os.path.abspath(__file__)))
sys.path.insert(0, HERE)
from mutants.catalog import MUTANTS  # noqa


def apply_mutant(wt, m):
    edits = m['edits'] if 'edits' in m else [(m['file'], m['old'], m['new'])]
    for f, old, new in edits:
        p = os.path.join(wt, f)
        s = open(p).read()
        if s.count(old) != 1:
            raise SystemExit('mutant %s: pattern occurs %d times in %s' % (m['id'], s.count(old), f))
        open(p, 'w').write(s.replace(old, new))


def run_one(m, with_tests, tier='quick'):
    wt = tempfile.mkdtemp(prefix='skmut-')
    os.rmdir(wt)
    subprocess.run(['git', '-C', '/repo', 'worktree', 'add', '-q', '--detach', wt, 'HEAD'], check=True)
    out = {'id': m['id']}
    try:
        apply_mutant(wt, m)
        if with_tests:
            p = subprocess.run(['/venv/bin/python', '-m', 'pytest', '-q', '-x', '-p', 'no:cacheprovider', '--timeout=900'],
                               cwd=wt, capture_output=True, text=True)
            out['tests_pass'] = p.returncode == 0
            out['tests_tail'] = p.stdout.strip().splitlines()[-1:] if p.stdout else []
        rdir = tempfile.mkdtemp(prefix='skmut-replays-')
        for prop in m['props']:
            env = dict(os.environ, VERIF_REPO=wt, VERIF_REPLAYS=rdir, VERIF_EVIDENCE=rdir)
            if m.get('runs'):
                env['VERIF_RUNS'] = str(m['runs'])
            t0 = time.time()
            p = subprocess.run([os.path.join(HERE, 'check'), prop, '--tier', m.get('tier', tier)], env=env,
                               capture_output=True, text=True, cwd=HERE)
            lines = [l for l in p.stdout.splitlines() if l.startswith(('VIOLATION', 'violation class', 'HARNESS', 'KNOWN'))]
            out[prop] = {'exit': p.returncode, 'caught': (p.returncode == 0) if m.get('control') else (p.returncode == 1), 's': round(time.time() - t0, 1), 'lines': lines[:4]}
            if p.returncode == 2:
                out[prop]['tail'] = (p.stdout + p.stderr)[-1500:]
        shutil.rmtree(rdir, ignore_errors=True)
    finally:
        subprocess.run(['git', '-C', '/repo', 'worktree', 'remove', '--force', wt])
        shutil.rmtree(wt, ignore_errors=True)
    return out


def main():
    args = sys.argv[1:]
    if not args or args[0] == 'list':
        for m in MUTANTS:
            print(m['id'], m['props'], '-', m.get('note', ''))
        return 0
    with_tests = '--tests' in args
    args = [a for a in args[1:] if a != '--tests']
    prop = None
    if '--prop' in args:
        prop = args[args.index('--prop') + 1]
        args = [a for a in args if a not in ('--prop', prop)]
    sel = [m for m in MUTANTS if (not args or m['id'] in args) and (prop is None or prop in m['props'])]
    results = []
    for m in sel:
        r = run_one(m, with_tests)
        results.append(r)
        print(json.dumps(r), flush=True)
    missed = [r['id'] for r in results for k, v in r.items() if isinstance(v, dict) and not v.get('caught')]
    print('caught %d / %d ; missed: %s' % (len(results) - len(set(missed)), len(results), sorted(set(missed))))
    return 0 if not missed else 1


if __name__ == '__main__':
    sys.exit(main())
