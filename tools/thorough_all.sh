#!/bin/bash
# Run every claimed thorough check once (wall budget per check from $1 seconds, default the check's own), print results.
cd "$(dirname "$0")/.."
W=${1:-0}
PROPS=$(/venv/bin/python -c "import json;print(' '.join(c['property_id'] for c in json.load(open('MANIFEST.json'))['checks']))")
export VERIF_EVIDENCE=$(mktemp -d) VERIF_REPLAYS=$(pwd)/replays/thorough
mkdir -p $VERIF_REPLAYS
for p in $PROPS; do
  if [ "$W" != "0" ]; then export VERIF_WALL=$W; fi
  out=$(./check $p --tier thorough 2>&1); rc=$?
  echo "== $p exit=$rc $(echo "$out" | grep -E "^$p:" | tail -1)"
  if [ $rc -ne 0 ]; then echo "$out" | grep -E "VIOLATION|violation class|HARNESS|KNOWN" | head -6; fi
done
