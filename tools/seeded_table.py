#!/venv/bin/python
"""Print the markdown tables of DESIGN.md 13.6 from /verif/seeded/*/meta.json (one table per round)."""
import json
import os
import sys

HERE = os.path.dirname(os.path.dirname(os.path.abspath(__file__)))
SEEDED = os.path.join(HERE, 'seeded')


def round_of(cid, meta):
    import re
    m = re.search(r'-R(\d)', cid)
    return int(m.group(1)) if m else 1


def main():
    rounds = {1: [], 2: [], 3: [], 4: [], 5: [], 6: [], 7: [], 8: []}
    for cid in sorted(os.listdir(SEEDED)):
        mp = os.path.join(SEEDED, cid, 'meta.json')
        if not os.path.exists(mp):
            continue
        m = json.load(open(mp))
        rounds[round_of(cid, m)].append((cid, m))
    only = int(sys.argv[1]) if len(sys.argv) > 1 else None
    for r, cases in rounds.items():
        if only and r != only:
            continue
        first = sum(1 for _, m in cases if m.get('history', '').startswith('caught at first'))
        print('**Round %d** (%d changes, %d caught at first evaluation by the check of their own property):\n' % (r, len(cases), first))
        print('| id | first | caught by quick check (seconds) | what it took |')
        print('|----|-------|---------------------------------|--------------|')
        for cid, m in cases:
            caught = ['%s (%.1fs)' % (k, v['seconds']) for k, v in sorted(m.get('checks', {}).items()) if v.get('caught')]
            if m.get('superseded'):
                caught = ['superseded by ' + m['superseded']]
            elif m.get('tier') == 'thorough':
                caught = [c + ' thorough tier' for c in caught]
            h = m.get('history', '')
            print('| %s | %s | %s | %s |' % (cid, 'yes' if h.startswith('caught at first') else 'no', ', '.join(caught) or 'MISSED', h.replace('|', '/')))
        print()


if __name__ == '__main__':
    main()
