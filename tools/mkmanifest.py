#!/venv/bin/python
"""Regenerate MANIFEST.json from the check modules that exist (checks/cNN.py with MANIFEST dict)."""
import importlib, json, os, sys
HERE = os.path.dirname(os.path.dirname(os.path.abspath(__file__)))
sys.path.insert(0, HERE)
NA = {
    'C16': 'pure arithmetic on an integer (subsidy schedule and constants): no schedule, clock, I/O, fault or second '
           'party for a simulator to control; enumerating heights is not this technique (DESIGN 6.C16)',
    'C17': 'merkle root / proof are pure functions of a list: nothing to schedule or fault-inject (DESIGN 6.C17); '
           'the node-level consequence (edited transaction lists are rejected) is exercised as forgeries in C06/C09',
}
ALL = ['C%02d' % i for i in range(1, 21)]
checks = []
na = []
for pid in ALL:
    path = os.path.join(HERE, 'checks', pid.lower() + '.py')
    if pid in NA:
        na.append({'property_id': pid, 'reason': NA[pid]})
        continue
    if not os.path.exists(path):
        na.append({'property_id': pid, 'reason': 'not claimed yet: check under construction (DESIGN section 6.%s)' % pid})
        continue
    src = open(path).read()
    ns = {}
    # MANIFEST dict literal lives in the module; import lazily without repo deps
    import ast
    tree = ast.parse(src)
    m = None
    for node in tree.body:
        if isinstance(node, ast.Assign) and getattr(node.targets[0], 'id', '') == 'MANIFEST':
            m = ast.literal_eval(node.value)
    if m is None:
        na.append({'property_id': pid, 'reason': 'not claimed yet: check under construction'})
        continue
    checks.append({
        'property_id': pid,
        'quick_cmd': './check %s --tier quick' % pid,
        'thorough_cmd': './check %s --tier thorough' % pid,
        'evidence_file': 'evidence/%s.json' % pid,
        'replay_cmd_template': './check --replay {path}',
        'engine': m['engine'],
        'level_claimed': {'category': m['level'], 'text': m['text'], 'design_ref': 'DESIGN.md 6.%s' % pid},
        'level_note': m['note'],
        'technique': m.get('technique', 'deterministic simulation with fault injection: seeded scripts of '
                           'operations and faults interpreted against the real code, judged by reference models'),
    })
man = {
    'version': 1,
    'setup_cmd': "/venv/bin/python -c 'import ecdsa, immutables, scrypt, hypothesis' && chmod +x /verif/check",
    'hooks': {
        'guard': 'SKEPTICOIN_VERIF',
        'enable': 'no hooks exist: every seam is a module attribute or constructor argument replaced by the harness '
                  'at run time (DESIGN 2.2); checks import /repo directly via PYTHONPATH',
        'baseline_off_cmd': 'cd /repo && /venv/bin/python -m pytest -ra -q -p no:cacheprovider --timeout=900 '
                            '--continue-on-collection-errors',
        'source_commits': [],
        'add_only': True,
    },
    'engines': [
        {'name': 'ledger-sim', 'path': 'engines/ledger.py', 'serves_properties': ['C01', 'C02', 'C03', 'C04', 'C05', 'C06', 'C14'],
         'kind_free_text': 'CoinState value chain driven through add_block with seeded block trees, forgeries, corruptions'},
        {'name': 'node-sim / net-sim', 'path': 'seams/net.py', 'serves_properties': ['C07', 'C09', 'C10', 'C11', 'C13', 'C18', 'C19', 'C20'],
         'kind_free_text': 'real LocalPeer(s) over simulated TCP, selector, clock and timers under a seeded scheduler'},
        {'name': 'store-sim', 'path': 'checks/c08.py', 'serves_properties': ['C08'], 'kind_free_text': 'real SQLite BlockStore, scripted buffer/flush/reopen'},
        {'name': 'miner-sim', 'path': 'checks/c12.py', 'serves_properties': ['C12'], 'kind_free_text': 'real MinerWatcher handlers + Miner loops on simulated queues'},
        {'name': 'fs-crash-sim', 'path': 'seams/fs.py', 'serves_properties': ['C15', 'C19'], 'kind_free_text': 'simulated file system with a process crash at every write/rename boundary'},
    ],
    'checks': checks,
    'not_applicable': na,
    'notes': 'Technique family: deterministic simulation with fault injection. One seed = one replayable execution; '
             'replays are minimised operation scripts under /verif/replays. Known findings: /verif/known_findings.json.',
}
json.dump(man, open(os.path.join(HERE, 'MANIFEST.json'), 'w'), indent=1)
print('checks:', [c['property_id'] for c in checks]); print('not claimed:', [n['property_id'] for n in na])
