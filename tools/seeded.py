#!/venv/bin/python
"""Confirm and file a seeded change produced by an independent sub-agent.

  tools/seeded.py eval <src-dir> <id> <prop> [--tier quick|thorough] [--props C01,C05]
      <src-dir> holds patch.diff, demo.py, notes.md.  In a scratch worktree of /repo HEAD (outside /repo and
      /verif): apply the patch, run the repo's test suite (must stay green), run demo.py with and without the
      patch (must exit 1 / 0), run the property's check against the patched tree (VERIF_REPO), remove the
      worktree.  Files the case under /verif/seeded/<id>/ with meta.json.
  tools/seeded.py recheck [id ...]     re-run the checks against every filed case
"""
import json
import os
import shutil
import subprocess
import sys
import tempfile
import time

HERE = os.path.dirname(os.path.dirname(os.path.abspath(__file__)))
SEEDED = os.path.join(HERE, 'seeded')


def sh(cmd, **kw):
    return subprocess.run(cmd, capture_output=True, text=True, **kw)


def make_worktree():
    wt = tempfile.mkdtemp(prefix='skseed-')
    os.rmdir(wt)
    subprocess.run(['git', '-C', '/repo', 'worktree', 'add', '-q', '--detach', wt, 'HEAD'], check=True)
    return wt


def drop_worktree(wt):
    subprocess.run(['git', '-C', '/repo', 'worktree', 'remove', '--force', wt])
    shutil.rmtree(wt, ignore_errors=True)


def run_demo(demo, tree):
    scratch = tempfile.mkdtemp(prefix='skseed-demo-')
    try:
        p = sh(['/venv/bin/python', demo], cwd=scratch, env=dict(os.environ, PYTHONPATH=tree), timeout=900)
        return p.returncode, (p.stdout + p.stderr)[-600:]
    finally:
        shutil.rmtree(scratch, ignore_errors=True)


def run_checks(wt, props, tier):
    out = {}
    rdir = tempfile.mkdtemp(prefix='skseed-replays-')
    for prop in props:
        env = dict(os.environ, VERIF_REPO=wt, VERIF_REPLAYS=rdir, VERIF_EVIDENCE=rdir)
        t0 = time.time()
        p = sh([os.path.join(HERE, 'check'), prop, '--tier', tier], env=env, cwd=HERE, timeout=7200)
        lines = [l for l in p.stdout.splitlines() if l.startswith(('VIOLATION', 'violation class', 'HARNESS', 'KNOWN'))]
        out[prop] = {'tier': tier, 'exit': p.returncode, 'caught': p.returncode == 1, 'seconds': round(time.time() - t0, 1),
                     'lines': [l[:400] for l in lines[:4]]}
    shutil.rmtree(rdir, ignore_errors=True)
    return out


def evaluate(src, cid, prop, tier, props):
    meta = {'id': cid, 'breaks_property': prop, 'checked_with': props, 'source': 'independent sub-agent (saw only the property text)'}
    patch = os.path.join(src, 'patch.diff')
    demo = os.path.join(src, 'demo.py')
    wt = make_worktree()
    try:
        rc0, out0 = run_demo(demo, wt)
        meta['demo_on_clean_tree'] = {'exit': rc0, 'tail': out0[-200:]}
        p = sh(['git', '-C', wt, 'apply', patch])
        meta['patch_applies'] = p.returncode == 0
        if p.returncode != 0:
            meta['apply_error'] = p.stderr[-400:]
            return meta
        for attempt in range(4):
            t = sh(['/venv/bin/python', '-m', 'pytest', '-q', '-p', 'no:cacheprovider', '--timeout=900'], cwd=wt)
            if t.returncode == 0 or 'Address already in use' not in (t.stdout + t.stderr) and attempt >= 1:
                break
            time.sleep(3 + attempt * 5)       # the networking tests use fixed ports: another suite may be running
        last = t.stdout.strip().splitlines()[-1] if t.stdout.strip() else ''
        meta['test_suite_with_patch'] = {'exit': t.returncode, 'last_line': last}
        for junk in ('chain.db', 'test.db', 'wallet.json'):
            try:
                os.remove(os.path.join(wt, junk))
            except OSError:
                pass
        rc1, out1 = run_demo(demo, wt)
        meta['demo_with_patch'] = {'exit': rc1, 'tail': out1[-300:]}
        meta['confirmed'] = bool(meta['patch_applies'] and t.returncode == 0 and rc1 == 1 and rc0 == 0)
        meta['checks'] = run_checks(wt, props, tier)
    finally:
        drop_worktree(wt)
    return meta


def file_case(src, cid, meta):
    dst = os.path.join(SEEDED, cid)
    os.makedirs(dst, exist_ok=True)
    for f in ('patch.diff', 'demo.py', 'notes.md'):
        if os.path.exists(os.path.join(src, f)):
            shutil.copy(os.path.join(src, f), os.path.join(dst, f))
    notes = ''
    if os.path.exists(os.path.join(src, 'notes.md')):
        notes = open(os.path.join(src, 'notes.md')).read()
    meta['needs_to_manifest'] = notes[:1500]
    meta['what_was_run'] = ('scratch worktree of /repo HEAD: git apply patch.diff; /venv/bin/python -m pytest -q; demo.py with/without the '
                            'patch (PYTHONPATH=tree); VERIF_REPO=<worktree> ./check <prop> --tier <tier>; worktree removed')
    with open(os.path.join(dst, 'meta.json'), 'w') as f:
        json.dump(meta, f, indent=1, sort_keys=True)


def main():
    a = sys.argv[1:]
    if not a:
        print(__doc__)
        return 2
    if a[0] == 'eval':
        src, cid, prop = a[1], a[2], a[3].upper()
        tier = a[a.index('--tier') + 1] if '--tier' in a else 'quick'
        props = a[a.index('--props') + 1].upper().split(',') if '--props' in a else [prop]
        meta = evaluate(src, cid, prop, tier, props)
        if meta.get('confirmed'):
            file_case(src, cid, meta)
        print(json.dumps(meta, indent=1)[:3000])
        return 0
    if a[0] == 'recheck':
        fast = '--fast' in a          # run only the checks that caught the change last time (all of them if none does any more)
        a = [x for x in a if x != '--fast']
        ids = a[1:] or sorted(os.listdir(SEEDED))
        tier = 'quick'
        missed = []
        for cid in ids:
            d = os.path.join(SEEDED, cid)
            mp = os.path.join(d, 'meta.json')
            if not os.path.exists(mp):
                continue
            meta = json.load(open(mp))
            if meta.get('superseded'):
                print(cid, 'superseded by', meta['superseded'], '(no longer changes behaviour on the current tree)', flush=True)
                continue
            wt = make_worktree()
            try:
                sh(['git', '-C', wt, 'apply', os.path.join(d, 'patch.diff')])
                allp = meta.get('checked_with', [meta['breaks_property']])
                before = [k for k, v in sorted(meta.get('checks', {}).items()) if v.get('caught')]
                if fast and before:
                    got = run_checks(wt, before[:1], meta.get('tier', tier))
                    if not any(c['caught'] for c in got.values()):
                        got.update(run_checks(wt, [p_ for p_ in allp if p_ not in got], meta.get('tier', tier)))
                    meta['checks'] = dict(meta.get('checks', {}), **got)
                else:
                    meta['checks'] = run_checks(wt, allp, meta.get('tier', tier))
            finally:
                drop_worktree(wt)
            json.dump(meta, open(mp, 'w'), indent=1, sort_keys=True)
            ok = any(c['caught'] for c in meta['checks'].values())
            print(cid, 'caught' if ok else 'MISSED', {k: (v['exit'], v['seconds']) for k, v in meta['checks'].items()}, flush=True)
            if not ok:
                missed.append(cid)
        print('missed:', missed)
        return 0
    print(__doc__)
    return 2


if __name__ == '__main__':
    sys.exit(main())
