#!/bin/bash
# Run every claimed quick check under several batch seeds; print any run that does not exit 0.
# usage: tools/soak.sh "1 2 3" [tier] [props...]
cd "$(dirname "$0")/.."
SEEDS=${1:-"1 2 3"}
TIER=${2:-quick}
shift; shift
PROPS=${@:-$(/venv/bin/python -c "import json;print(' '.join(c['property_id'] for c in json.load(open('MANIFEST.json'))['checks']))")}
export VERIF_EVIDENCE=$(mktemp -d) VERIF_REPLAYS=$(pwd)/replays/soak
mkdir -p $VERIF_REPLAYS
bad=0
for s in $SEEDS; do
  for p in $PROPS; do
    out=$(VERIF_SEED=$s ./check $p --tier $TIER 2>&1); rc=$?
    if [ $rc -ne 0 ]; then bad=1; echo "== seed=$s $p exit=$rc"; echo "$out" | grep -E "VIOLATION|violation class|HARNESS|Error|error" | head -6; else echo "ok seed=$s $p $(echo "$out" | tail -1)"; fi
  done
done
rm -rf $VERIF_EVIDENCE
exit $bad
