#!/venv/bin/python
"""Print the 'measured on this image' sentence of DESIGN.md 13.1 from /verif/evidence/*.json (last quick run of every check)."""
import json
import os

HERE = os.path.dirname(os.path.dirname(os.path.abspath(__file__)))


def main():
    parts = []
    for f in sorted(os.listdir(os.path.join(HERE, 'evidence'))):
        if not f.endswith('.json'):
            continue
        d = json.load(open(os.path.join(HERE, 'evidence', f)))
        cov = d.get('coverage', {})
        runs = cov.get('evaluations')
        parts.append('%s %s runs %.0f s' % (d['property_id'], '{:,}'.format(runs).replace(',', ' ') if isinstance(runs, int) else '?', d.get('wall_s', 0)))
    print('; '.join(parts) + '.')


if __name__ == '__main__':
    main()
