"""Self-tests of the machinery.

  ./check selftest determinism [Cnn ...] [--runs N]
      every seed is executed twice in one process (second time after unrelated seeds, so state leaking
      between runs shows), once more in a fresh interpreter under another PYTHONHASHSEED, and the
      event-log digests are compared.
  ./check selftest digests Cnn N      (internal) print digests of the first N seeds as JSON
"""
import json
import os
import subprocess
import sys

from simkit import runner

VERIF = runner.VERIF
ALL = ['C01', 'C02', 'C03', 'C04', 'C05', 'C06', 'C07', 'C08', 'C09', 'C10', 'C11', 'C12', 'C13', 'C14', 'C15', 'C18', 'C19', 'C20']


def digests(prop, n, tier='quick', seed=777, order=None):
    from seams import env
    env.setup()
    mod = runner.load_check(prop)
    out = {}
    idx = list(range(n)) if order is None else order
    for i in idx:
        s = runner.seed_for(seed, prop, i)
        script = mod.generate_i(s, tier, i) if hasattr(mod, 'generate_i') else mod.generate(s, tier)
        script['seed'] = s
        with env.quiet():
            r = runner._execute(mod, script)
        out[i] = (r.get('digest', ''), len(r['violations']), json.dumps(r['stats'], sort_keys=True))
    return out


def determinism(props, n):
    bad = 0
    for prop in props:
        a = digests(prop, n)
        b = digests(prop, n, order=list(reversed(range(n))))
        env2 = dict(os.environ, PYTHONHASHSEED='4242', _VERIF_REEXEC='1')
        p = subprocess.run([sys.executable, os.path.join(VERIF, 'check'), 'selftest', 'digests', prop, str(n)],
                           capture_output=True, text=True, env=env2, timeout=3600)
        try:
            c = {int(k): tuple(v) for k, v in json.loads(p.stdout.strip().splitlines()[-1]).items()}
        except Exception:
            print('%s: fresh interpreter failed: %s' % (prop, (p.stdout + p.stderr)[-500:]))
            bad += 1
            continue
        diff_ab = [i for i in a if a[i] != b[i]]
        diff_ac = [i for i in a if a[i] != c.get(i)]
        empty = [i for i in a if not a[i][0]]
        status = 'ok' if not (diff_ab or diff_ac) else 'DIVERGES'
        print('%s: %d seeds x (2 in-process orders + fresh interpreter, other hash seed): %s%s%s%s' % (
            prop, n, status,
            ' same-process divergence at %s' % diff_ab[:5] if diff_ab else '',
            ' cross-interpreter divergence at %s' % diff_ac[:5] if diff_ac else '',
            ' (no digest for %d runs)' % len(empty) if empty else ''), flush=True)
        if diff_ab or diff_ac:
            bad += 1
    return 1 if bad else 0


def main(args):
    if not args:
        print(__doc__)
        return 2
    if args[0] == 'digests':
        d = digests(args[1].upper(), int(args[2]))
        print(json.dumps({str(k): list(v) for k, v in d.items()}))
        return 0
    if args[0] == 'determinism':
        n = 12
        rest = args[1:]
        if '--runs' in rest:
            n = int(rest[rest.index('--runs') + 1])
            rest = [x for x in rest if x not in ('--runs', str(n))]
        props = [p.upper() for p in rest] or ALL
        return determinism(props, n)
    print(__doc__)
    return 2
