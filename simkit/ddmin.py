"""Delta debugging on a list (Zeller's ddmin, complement-first), deterministic."""


def ddmin(items, fails):
    """Smallest sublist (1-minimal up to the predicate's budget) for which fails(sublist) is True.
    fails(items) is assumed True for the input."""
    items = list(items)
    n = 2
    while len(items) >= 2:
        size = max(1, len(items) // n)
        chunks = [items[i:i + size] for i in range(0, len(items), size)]
        reduced = False
        # try each complement
        for i in range(len(chunks)):
            cand = [x for j, c in enumerate(chunks) if j != i for x in c]
            if cand and fails(cand):
                items = cand
                n = max(n - 1, 2)
                reduced = True
                break
        if not reduced:
            for c in chunks:
                if len(c) < len(items) and fails(c):
                    items = c
                    n = 2
                    reduced = True
                    break
        if not reduced:
            if n >= len(items):
                break
            n = min(len(items), n * 2)
    if len(items) == 1 and fails([]):
        return []
    return items
