"""Batch runner: fan seeds out to a fork pool, collect counters, minimise and replay violations,
write the evidence file.  Exit codes: 0 held (KNOWN-FINDING lines allowed), 1 violation(s), 2 harness error.
"""
import faulthandler
import importlib
import json
import os
import subprocess
import sys
import time
import traceback
from concurrent.futures import ProcessPoolExecutor, as_completed
import multiprocessing

from simkit.core import H, Result, Deadlock
from simkit import ddmin

VERIF = os.path.dirname(os.path.dirname(os.path.abspath(__file__)))
REPLAYS = os.environ.get('VERIF_REPLAYS') or os.path.join(VERIF, 'replays')
EVIDENCE = os.environ.get('VERIF_EVIDENCE') or os.path.join(VERIF, 'evidence')
KNOWN = os.path.join(VERIF, 'known_findings.json')
PER_RUN_WALL = int(os.environ.get('VERIF_PER_RUN_WALL', '900'))


def load_check(prop: str):
    return importlib.import_module('checks.' + prop.lower())


def seed_for(batch_seed: int, prop: str, i: int) -> int:
    return H(batch_seed, prop, i)


def _execute(mod, script):
    """Run one script; classify exceptions: raised by the harness → harness error."""
    try:
        res = mod.execute(script)
    except Exception as e:
        if type(e).__name__ == 'BaseNotApplicable':
            # building the trusted starting state uses the repo's own ledger functions on a valid block: they raised
            res = Result()
            res.violate(mod.PROP, '%s/valid-block-raises-when-applied' % mod.PROP,
                        'applying a valid reward-only block with several outputs to an empty ledger raised %s' % e)
            res.digest = 'base-not-applicable'
            return res.as_dict()
        if type(e).__name__ != 'WorldNotBuilt':
            raise
        # the simulated world could not be set up because the code under test refused a valid starting state (e.g. the
        # store would not take the chain the node starts with): no verdict from this run, and no harness error either
        res = Result()
        res.bump('world_not_built')
        res.digest = 'world-not-built'
    except Deadlock as e:
        # raised by the stand-in for threading.Lock: code under test acquired a lock that is held and that nobody can
        # release any more (every handler of a node runs to completion on one thread) - the real thread blocks for good
        res = Result()
        res.violate(mod.PROP, '%s/thread-blocks-forever' % mod.PROP, 'Deadlock: %s' % e)
        res.digest = 'deadlock'
    return res.as_dict() if hasattr(res, 'as_dict') else res


_HISTORY = []      # run indices this worker process has executed so far, in order (state that code under test keeps at
                   # module level can carry from run to run: a violation that needs it is replayed with this prelude)


def _work(args):
    prop, tier, batch_seed, start, count = args
    from seams import env
    env.setup()
    mod = load_check(prop)
    agg = {'runs': 0, 'stats': {}, 'distinct': set(), 'virtual_s': 0.0, 'events': 0, 'violations': [],
           'samples': [], 'digests': [], 'known_hits': {}}
    known_preds = {k['predicate'] for k in load_known() if k.get('property') == prop and k.get('status') == 'known'}
    for i in range(start, start + count):
        s = seed_for(batch_seed, prop, i)
        faulthandler.dump_traceback_later(PER_RUN_WALL, exit=True)
        try:
            script = mod.generate_i(s, tier, i) if hasattr(mod, 'generate_i') else mod.generate(s, tier)
            script['seed'] = s
            with env.quiet():
                r = _execute(mod, script)
        except Exception:
            raise RuntimeError('harness exception in run i=%d seed=%d\n%s' % (i, s, traceback.format_exc()))
        finally:
            faulthandler.cancel_dump_traceback_later()
        agg['runs'] += 1
        for k, v in r['stats'].items():
            agg['stats'][k] = agg['stats'].get(k, 0) + v
        agg['distinct'].update(r['distinct'])
        agg['virtual_s'] += r.get('virtual_s', 0.0)
        agg['events'] += r.get('events', 0)
        agg['digests'].append(r.get('digest', '')[:12])
        if r['violations'] and known_preds and hasattr(mod, 'classify_known'):
            rest = []
            for v in r['violations']:
                fid = mod.classify_known(script, v)
                if fid is not None and fid in known_preds:
                    agg['known_hits'][fid] = agg['known_hits'].get(fid, 0) + 1
                else:
                    rest.append(v)
            r['violations'] = rest
        _HISTORY.append(i)
        if r['violations']:
            if len(agg['violations']) < 4:
                agg['violations'].append({'i': i, 'seed': s, 'script': script, 'violations': r['violations'],
                                          'prelude': list(_HISTORY[:-1])})
            else:
                agg['stats']['violating_runs_not_kept'] = agg['stats'].get('violating_runs_not_kept', 0) + 1
        if i < 2 or (r.get('sample') is not None and len(agg['samples']) < 1):
            agg['samples'].append({'seed': s, 'script': _shorten(script), 'outcome': r.get('sample')})
    agg['distinct'] = sorted(agg['distinct'])
    return agg


def _shorten(script, limit=40):
    s = dict(script)
    if isinstance(s.get('ops'), list) and len(s['ops']) > limit:
        s['ops'] = s['ops'][:limit] + ['… %d more' % (len(script['ops']) - limit)]
    return s


def load_known():
    try:
        with open(KNOWN) as f:
            return json.load(f).get('findings', [])
    except FileNotFoundError:
        return []


def violation_class_in(result_dict, cls, script=None, is_known=None):
    for v in result_dict['violations']:
        if v['cls'] == cls and not (is_known is not None and is_known(script, v)):
            return True
    return False


def minimise(mod, script, cls, wall=60.0, is_known=None):
    from seams import env
    env.setup()
    deadline = time.time() + wall

    def fails(ops):
        if time.time() > deadline:
            return False
        cand = dict(script)
        cand['ops'] = ops
        try:
            with env.quiet():
                r = _execute(mod, cand)
        except Exception:
            return False
        return violation_class_in(r, cls, cand, is_known)

    if not isinstance(script.get('ops'), list):
        return script
    ops = ddmin.ddmin(script['ops'], fails)
    out = dict(script)
    out['ops'] = ops
    def default_simplify(sc):
        # schedule minimisation: switch one dimension of the schedule profile at a time from random to eager
        cfg = sc.get('config') if isinstance(sc.get('config'), dict) else None
        if cfg is None:
            return
        cur = dict(sc)
        for dim in ('latency', 'frag', 'short_writes', 'order'):
            prof = dict((cur.get('config') or {}).get('profile') or {})
            if prof.get(dim) == 'eager':
                continue
            prof[dim] = 'eager'
            cand = dict(cur)
            cand['config'] = dict(cur['config'], profile=prof)
            yield cand

    simp = mod.simplify if hasattr(mod, 'simplify') else default_simplify
    if True:
        for cand in simp(out):
            if time.time() > deadline:
                break
            try:
                with env.quiet():
                    r = _execute(mod, cand)
            except Exception:
                continue
            if violation_class_in(r, cls, cand, is_known):
                out = cand
    return out


def write_replay(prop, seed, script, cls, detail, prelude=None):
    os.makedirs(REPLAYS, exist_ok=True)
    path = os.path.join(REPLAYS, '%s-%d.json' % (prop, seed))
    doc = {'property': prop, 'seed': seed, 'expected_class': cls, 'detail': detail, 'script': script}
    if prelude:
        # runs executed earlier in the same process (regenerated from their seeds): the violation needs state that the
        # code under test carried over from them
        doc['prelude'] = prelude
    with open(path, 'w') as f:
        json.dump(doc, f, indent=1, sort_keys=True)
    return path


def _run_prelude(mod, prelude):
    from seams import env
    for pr in prelude.get('runs', []):
        try:
            sc = mod.generate_i(pr['seed'], prelude['tier'], pr['i']) if hasattr(mod, 'generate_i') else mod.generate(pr['seed'], prelude['tier'])
            sc['seed'] = pr['seed']
            with env.quiet():
                _execute(mod, sc)
        except BaseException:       # noqa: only the state these runs leave behind matters here
            pass


def replay(path) -> int:
    path = os.path.abspath(path)
    from seams import env
    env.setup()
    with open(path) as f:
        rp = json.load(f)
    mod = load_check(rp['property'])
    if rp.get('prelude'):
        _run_prelude(mod, rp['prelude'])
    with env.quiet():
        r = _execute(mod, rp['script'])
    if violation_class_in(r, rp['expected_class']):
        for v in r['violations']:
            print('violation: %s %s' % (v['cls'], v['detail'][:300]))
        print('VIOLATION property=%s replay=%s' % (rp['property'], path))
        return 1
    print('replay %s did not reproduce %s (got %s)' % (path, rp['expected_class'],
                                                       [v['cls'] for v in r['violations']]))
    return 2


def confirm_in_fresh_process(path) -> bool:
    p = subprocess.run([sys.executable, os.path.join(VERIF, 'check'), '--replay', path],
                       capture_output=True, text=True, timeout=600)
    return p.returncode == 1 and 'VIOLATION property=' in p.stdout


def run_check(prop: str, tier: str, batch_seed: int, runs_override=None) -> int:
    t0 = time.time()
    mod = load_check(prop)
    budget = mod.BUDGET[tier]
    runs = runs_override or int(os.environ.get('VERIF_RUNS', 0)) or budget['runs']
    wall = float(os.environ.get('VERIF_WALL', 0)) or budget.get('wall', 600)
    chunk = budget.get('chunk', max(1, min(50, runs // 64 or 1)))
    workers = int(os.environ.get('VERIF_WORKERS', 0)) or min(16, os.cpu_count() or 1)
    print('seed=%d property=%s tier=%s runs=%d workers=%d' % (batch_seed, prop, tier, runs, workers), flush=True)

    tasks = [(prop, tier, batch_seed, s, min(chunk, runs - s)) for s in range(0, runs, chunk)]
    agg = {'runs': 0, 'stats': {}, 'distinct': set(), 'virtual_s': 0.0, 'events': 0, 'violations': [],
           'samples': []}
    harness_error = None
    cut_short = False
    known_hit = {}
    digests = set()
    ctx = multiprocessing.get_context('fork')
    # workers leave through os._exit (no atexit handlers): their scratch directories live under one directory of the batch,
    # which the parent removes when the pool is gone
    import tempfile
    import shutil
    old_tempdir = tempfile.tempdir
    batch_tmp = tempfile.mkdtemp(prefix='skverif-batch-')
    tempfile.tempdir = batch_tmp          # inherited by the forked workers; nothing is drawn from any PRNG for this
    try:
        ex = ProcessPoolExecutor(max_workers=workers, mp_context=ctx)
    except Exception:
        tempfile.tempdir = old_tempdir
        raise
    with ex:
        pending = set()
        it = iter(tasks)
        try:
            for _ in range(workers * 2):
                t = next(it, None)
                if t is None:
                    break
                pending.add(ex.submit(_work, t))
            while pending:
                done = next(as_completed(pending))
                pending.discard(done)
                a = done.result()
                agg['runs'] += a['runs']
                for k, v in a['stats'].items():
                    agg['stats'][k] = agg['stats'].get(k, 0) + v
                agg['distinct'].update(a['distinct'])
                agg['virtual_s'] += a['virtual_s']
                agg['events'] += a['events']
                agg['violations'].extend(a['violations'])
                digests.update(a.get('digests', ()))
                for k, v in a.get('known_hits', {}).items():
                    known_hit[k] = known_hit.get(k, 0) + v
                if len(agg['samples']) < 3:
                    agg['samples'].extend(a['samples'][:3 - len(agg['samples'])])
                if time.time() - t0 > wall:
                    cut_short = True
                elif len(agg['violations']) >= 8:
                    cut_short = True
                if not cut_short:
                    t = next(it, None)
                    if t is not None:
                        pending.add(ex.submit(_work, t))
        except Exception as e:  # BrokenProcessPool, harness exceptions in workers
            harness_error = '%s: %s' % (type(e).__name__, e)
            traceback.print_exc()
            for f in pending:
                f.cancel()
    tempfile.tempdir = old_tempdir
    shutil.rmtree(batch_tmp, ignore_errors=True)

    # ---- violations: known-finding filter, minimise, fresh-process confirmation
    known = [k for k in load_known() if k.get('property') == prop and k.get('status') == 'known']
    reported = []
    unreproduced = []
    seen_cls = set()
    agg['violations'].sort(key=lambda v: v['i'])
    for rec in agg['violations']:
        for v in rec['violations']:
            fid = mod.classify_known(rec['script'], v) if hasattr(mod, 'classify_known') else None
            if fid is not None and any(k['predicate'] == fid for k in known):
                known_hit[fid] = known_hit.get(fid, 0) + 1
                continue
            if v['cls'] in seen_cls or len(seen_cls) >= 3:
                continue
            seen_cls.add(v['cls'])
            def is_known(sc, vv):
                if not hasattr(mod, 'classify_known'):
                    return False
                f = mod.classify_known(sc, vv)
                return f is not None and any(k['predicate'] == f for k in known)
            try:
                small = minimise(mod, rec['script'], v['cls'], wall=budget.get('min_wall', 60), is_known=is_known)
            except Exception:
                traceback.print_exc()
                small = rec['script']
            from seams import env
            env.setup()
            with env.quiet():
                r2 = _execute(mod, small)
            v2 = next((x for x in r2['violations'] if x['cls'] == v['cls'] and not is_known(small, x)), v)
            path = write_replay(prop, rec['seed'], small, v['cls'], v2['detail'])
            if confirm_in_fresh_process(path):
                reported.append((v['cls'], path, v2['detail']))
                continue
            # the minimised script may have lost something the failure needs: try the script as generated
            path = write_replay(prop, rec['seed'], rec['script'], v['cls'], v['detail'])
            if confirm_in_fresh_process(path):
                reported.append((v['cls'], path, v['detail']))
                continue
            # the failure may need state the code under test carried over from earlier runs of the same worker process
            if rec.get('prelude'):
                pre = {'tier': tier, 'runs': [{'i': j, 'seed': seed_for(batch_seed, prop, j)} for j in rec['prelude']]}
                path = write_replay(prop, rec['seed'], rec['script'], v['cls'], v['detail'], prelude=pre)
                if confirm_in_fresh_process(path):
                    t_end = time.time() + budget.get('min_wall', 60) * 2

                    def still_fails(runs_subset):
                        if time.time() > t_end:
                            return False
                        write_replay(prop, rec['seed'], rec['script'], v['cls'], v['detail'], prelude=dict(pre, runs=runs_subset))
                        return confirm_in_fresh_process(path)
                    kept = ddmin.ddmin(pre['runs'], still_fails)
                    path = write_replay(prop, rec['seed'], rec['script'], v['cls'], v['detail'], prelude=dict(pre, runs=kept))
                    if not confirm_in_fresh_process(path):
                        path = write_replay(prop, rec['seed'], rec['script'], v['cls'], v['detail'], prelude=pre)
                    reported.append((v['cls'], path, v['detail'] + ' [needs state left behind by %d earlier run(s) of the same process: '
                                     'see "prelude" in the replay file]' % len(kept)))
                    continue
            seen_cls.discard(v['cls'])          # let another run of the same class have a try
            unreproduced.append('violation %s of run seed=%d did not reproduce in a fresh process (%s)' % (v['cls'], rec['seed'], path))

    for k in known:
        if known_hit.get(k['predicate']):
            print('KNOWN-FINDING: property=%s %s (reproduced in %d runs)' % (prop, k['what'], known_hit[k['predicate']]))

    wall_s = time.time() - t0
    desc = mod.describe() if hasattr(mod, 'describe') else {}
    probes = {k: v for k, v in sorted(agg['stats'].items())}
    zero = [p for p in desc.get('expected_probes', []) if not probes.get(p)]
    for p in zero:
        print('warning: probe never fired: %s' % p)
    coverage = {
        'evaluations': agg['runs'],
        'distinct_nontrivial': len(agg['distinct']),
        'rule': desc.get('rule', ''),
        'samples': agg['samples'][:3] or [{}],
        'runs_per_hour': int(agg['runs'] / max(wall_s, 1e-6) * 3600),
        'simulated_seconds': round(agg['virtual_s'], 1),
        'events': agg['events'],
        'distinct_event_log_digests': len(digests - {''}),
        'counters': probes,
        'probes_never_fired': zero,
        'components': desc.get('components', {}),
        'cut_short_by_wall_budget': cut_short,
        'known_findings_reproduced': known_hit,
    }
    if desc.get('exhaustive_note'):
        coverage['exhaustive'] = False
        coverage['exhaustive_note'] = desc['exhaustive_note']
    ev = {
        'property_id': prop, 'tier': tier, 'seed': batch_seed, 'level': mod.LEVEL,
        'coverage': coverage, 'assumptions': desc.get('assumptions', []),
        'wall_s': round(wall_s, 2), 'violations': len(reported),
    }
    os.makedirs(EVIDENCE, exist_ok=True)
    with open(os.path.join(EVIDENCE, '%s.json' % prop), 'w') as f:
        json.dump(ev, f, indent=1, sort_keys=True, default=str)
    print('%s: %d runs, %d distinct cases, %.1fs wall, %d violation(s)' % (
        prop, agg['runs'], len(agg['distinct']), wall_s, len(reported)))
    for cls, path, detail in reported:
        print('violation class %s: %s' % (cls, detail[:400]))
        print('VIOLATION property=%s replay=%s' % (prop, path))
    if reported:
        return 1
    if unreproduced and not harness_error:
        harness_error = '; '.join(unreproduced[:3])
    if harness_error:
        print('HARNESS-ERROR: %s' % harness_error)
        return 2
    if agg['runs'] == 0:
        print('HARNESS-ERROR: no runs completed')
        return 2
    return 0
