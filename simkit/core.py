"""Simulation kernel primitives: seed derivation, streams, trace/digest, violations.

One integer decides everything: every stream is a random.Random seeded from
SHA-256(seed, label).  Python's hash() is never used.
"""
import hashlib
import heapq
import random


def H(*parts) -> int:
    h = hashlib.sha256()
    for p in parts:
        if isinstance(p, bytes):
            b = p
        else:
            b = str(p).encode()
        h.update(len(b).to_bytes(4, 'big'))
        h.update(b)
    return int.from_bytes(h.digest()[:8], 'big')


class Streams:
    """Independent PRNG streams derived from one seed."""

    def __init__(self, seed: int):
        self.seed = seed
        self._s = {}

    def get(self, label: str) -> random.Random:
        r = self._s.get(label)
        if r is None:
            r = random.Random(H(self.seed, label))
            self._s[label] = r
        return r


class Trace:
    """Canonical event log.  The digest is what determinism self-tests compare."""

    def __init__(self, keep: int = 0):
        self._h = hashlib.sha256()
        self.n = 0
        self.keep = keep
        self.lines = []

    def add(self, *fields):
        parts = []
        for f in fields:
            if isinstance(f, (bytes, bytearray)):
                parts.append(bytes(f).hex()[:16])
            else:
                parts.append(str(f))
        line = ' '.join(parts)
        self._h.update(line.encode())
        self._h.update(b'\n')
        self.n += 1
        if self.keep:
            self.lines.append(line)
            if len(self.lines) > self.keep:
                del self.lines[0]

    def digest(self) -> str:
        return self._h.hexdigest()


class Violation(Exception):
    def __init__(self, prop: str, cls: str, detail: str = '', data=None):
        super().__init__('%s %s %s' % (prop, cls, detail))
        self.prop = prop
        self.cls = cls
        self.detail = detail
        self.data = data or {}

    def as_dict(self):
        return {'prop': self.prop, 'cls': self.cls, 'detail': self.detail, 'data': self.data}


class HarnessError(Exception):
    """Raised by harness code when the harness itself is inconsistent (exit 2, never a violation)."""


class Deadlock(BaseException):
    """A lock that is already held is acquired again: with every handler of the node running to completion on
    one thread nobody can ever release it - the real node's thread would block here for good."""


class Result:
    """What one interpreted run returns to the runner."""

    def __init__(self):
        self.violations = []      # list of dicts (Violation.as_dict())
        self.stats = {}           # counters: fired faults, probes
        self.distinct = set()     # distinct non-trivial case keys (strings)
        self.virtual_s = 0.0
        self.events = 0
        self.digest = ''
        self.sample = None

    def bump(self, key, n=1):
        self.stats[key] = self.stats.get(key, 0) + n

    def violate(self, prop, cls, detail='', data=None):
        self.violations.append({'prop': prop, 'cls': cls, 'detail': detail, 'data': data or {}})

    def as_dict(self):
        return {
            'violations': self.violations, 'stats': self.stats, 'distinct': sorted(self.distinct),
            'virtual_s': self.virtual_s, 'events': self.events, 'digest': self.digest, 'sample': self.sample,
        }


class EventHeap:
    """Discrete-event queue ordered by (time_ms, seq): a total order."""

    def __init__(self):
        self.q = []
        self.seq = 0
        self.now = 0

    def push(self, at_ms: int, kind: str, payload=None):
        self.seq += 1
        heapq.heappush(self.q, (int(at_ms), self.seq, kind, payload))

    def pop(self):
        at, seq, kind, payload = heapq.heappop(self.q)
        if at > self.now:
            self.now = at
        return at, seq, kind, payload

    def __len__(self):
        return len(self.q)
