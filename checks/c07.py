"""C07 — canonical identity: one encoding per value; the id is the double SHA-256 of it, whatever the route."""
import struct
from io import BytesIO

import os

from simkit.core import Streams, Result, Trace
from seams import env
from checks import ledger_common as LC

PROP = 'C07'
LEVEL = 'exploration'
BUDGET = {
    'quick': {'runs': 600, 'wall': 170, 'chunk': 5},
    'thorough': {'runs': 30000, 'wall': 1700, 'chunk': 20},
}
MANIFEST = {
    'engine': 'wire/store seam monitor + node-sim route',
    'level': 'exploration',
    'text': 'Two kinds of seeded runs. (codec) Honest consensus objects taken from generated chains (blocks with 0-4 '
            'transactions, headers, summaries, evidence, transactions, inputs, outputs, references, every signature and key '
            'type) and all seven wire message types with seeded field values: encode-decode-encode must be the identity, and '
            'an on-path re-encoder applies to every byte position the generic variable-length-quantity rewrites (insert a '
            'continuation byte, drop one, split a 0x40-0x7f byte), trailing data and tag changes; whatever still decodes must '
            're-encode to exactly the consumed bytes and carry the id sha256d(canonical encoding). (route) The same '
            're-encodings of a fully valid new block or transaction are relayed to a real node with a real store: if the '
            'object enters chain state, pool or store by any route, the id it is known under must be the hash of its '
            'canonical encoding, also after a store round trip, so two nodes can never know one content under two ids.'
            ' Ids of freshly built objects are also taken right after id computations that failed half-way (half-built transaction hashed or printed, fields that do not fit their width).'
            ' A decodable block with unusual but storable references goes through the real block store and back; encodings are interleaved as on two threads; lists of up to 1,300 entries.',
    'note': 'Trusted: hashlib; the repo encoder defines "canonical" (the harness never re-implements a byte format). The '
            '"every byte string" quantifier is sampled by rewriting real encodings, not enumerated.',
}

MSG_KINDS = ['hello', 'getblocks', 'inventory', 'getdata', 'data_block', 'data_tx', 'data_header', 'getpeers', 'peers']


def generate(seed, tier):
    rng = Streams(seed).get('gen')
    mode = 'route' if rng.random() < 0.3 else 'codec'
    build = [LC.gen_mine(rng, latest_bias=0.8, max_txs=4) for _ in range(rng.randint(2, 5))]
    for m in build:
        m['clock'] = 0
        m['via'] = 'memory'
    ops = []
    if mode == 'codec':
        for _ in range(rng.randint(6, 14)):
            x = rng.random()
            if x < 0.08:
                ops.append({'op': 'built_in_memory', 'n': rng.randrange(1000), 'edit': rng.choice(['output_value', 'append_output', 'signature', 'drop_input', 'wallet_signs_decoded',
                                                                                            'wallet_signs_decoded', 'after_failed_id', 'after_failed_id', 'store_roundtrip', 'store_roundtrip',
                                                                                            'interleaved_serialize', 'interleaved_serialize'])})
            elif x < 0.45:
                ops.append({'op': 'rewrite', 'type': rng.choice(['block', 'block', 'header', 'summary', 'tx', 'tx', 'input',
                                                                 'output', 'outref', 'evidence', 'sig', 'pubkey', 'coinbasedata',
                                                                 'summary_edge', 'summary_edge', 'tx_many_outputs']),
                            'n': rng.randrange(1000), 'stride': rng.choice([1, 1, 1, 2, 3])})
            else:
                n_ = rng.randrange(0, 130) if rng.random() < 0.9 else rng.choice([127, 128, 129, 500, 501, 999, 1000, 1001, 1300])
                ops.append({'op': 'message', 'kind': rng.choice(MSG_KINDS), 'a': rng.getrandbits(48), 'n': n_})
    else:
        for _ in range(rng.randint(3, 8)):
            ops.append({'op': rng.choice(['relay_rewritten_block', 'relay_rewritten_block', 'submit_rewritten_tx']),
                        'pos': rng.randrange(10000), 'rw': rng.choice(['insert80', 'insert80', 'drop80', 'split']),
                        'spec': LC.gen_tx_spec(rng), 'miner': rng.randrange(12), 'peer': rng.randrange(3),
                        'txs': [LC.gen_tx_spec(rng) for _ in range(rng.choice([0, 1, 2]))]})
    return {'config': {'mode': mode, 'base': rng.choice(['hreal', 'hreal', 'hlow_easy']), 'build': build}, 'ops': ops}


def sha256d(b):
    import hashlib
    return hashlib.sha256(hashlib.sha256(b).digest()).digest()


def rewrites(raw: bytes, stride=1):
    """The generic ways to hit a variable-length-quantity decoder without knowing the format."""
    n = len(raw)
    for i in range(0, n, stride):
        yield ('insert80', i, raw[:i] + b'\x80' + raw[i:])
        if raw[i] == 0x80 and i + 1 < n:
            yield ('drop80', i, raw[:i] + raw[i + 1:])
        if 0x40 <= raw[i] <= 0x7f:
            yield ('split', i, raw[:i] + b'\x80' + raw[i:i + 1] + raw[i + 1:])
    yield ('trailing', n, raw + b'\x00')
    yield ('trailing', n, raw + b'\x80\x01')


def check_decoded(res, cls, obj, consumed: bytes, what):
    """(2) re-encoding equals the consumed bytes; (3) id is the hash of the canonical encoding."""
    from skepticoin.datatypes import Block, Transaction, BlockHeader, BlockSummary
    re = obj.serialize()
    if re != consumed:
        res.violate(PROP, 'C07/decodes-but-reencodes-differently',
                    '%s: %d bytes were accepted by the %s decoder but re-encode to %d different bytes: the value has a second '
                    'accepted encoding' % (what, len(consumed), cls.__name__, len(re)), {'what': what})
        return False
    if isinstance(obj, Block):
        want = sha256d(obj.header.serialize())
    elif isinstance(obj, (Transaction, BlockHeader, BlockSummary)):
        want = sha256d(re)
    else:
        return True
    if obj.hash() != want:
        res.violate(PROP, 'C07/id-is-not-hash-of-canonical-encoding', '%s: id %s, hash of canonical encoding %s' % (
            what, obj.hash().hex()[:16], want.hex()[:16]))
        return False
    return True


def run_codec(script, res, trace):
    from ipaddress import IPv6Address
    from engines.ledger import LedgerSim
    from skepticoin.datatypes import (Block, BlockHeader, BlockSummary, PowEvidence, Transaction, Input, Output, OutputReference)
    from skepticoin.signing import Signature, PublicKey, CoinbaseData, SECP256k1Signature, SignableEquivalent
    from skepticoin.networking import messages as M
    from world import ledger as W
    sim = LedgerSim({'base': script['config'].get('base', 'hreal')}, PROP, res, trace)
    sim.run(script['config']['build'])
    blocks = [sim.block_objs[b] for b in sim.stored]
    with_tx = [b for b in blocks if len(b.transactions) > 1] or blocks

    def pick(kind, n):
        b = with_tx[n % len(with_tx)]
        t = b.transactions[-1]
        if kind == 'summary_edge':
            # heights whose bit length is a multiple of 7: the encoder writes a leading continuation octet for them
            h = [64, 100, 127, 8192, 16383, 1 << 20, (1 << 21) - 1, 63, 128, 8191, 16384, 0, 1][n % 13]
            s0 = b.header.summary
            return BlockSummary, BlockSummary(h, s0.previous_block_hash, s0.merkle_root_hash, s0.timestamp, s0.target, s0.nonce)
        if kind == 'tx_many_outputs':
            m = [64, 70, 127, 128, 63][n % 5]
            return Transaction, Transaction(list(t.inputs), [Output(1 + i, W.key(i % 12).pk) for i in range(m)])
        return {
            'block': (Block, b), 'header': (BlockHeader, b.header), 'summary': (BlockSummary, b.header.summary),
            'evidence': (PowEvidence, b.header.pow_evidence), 'tx': (Transaction, t), 'input': (Input, t.inputs[0]),
            'output': (Output, t.outputs[0]), 'outref': (OutputReference, t.inputs[0].output_reference),
            'sig': (Signature, t.inputs[0].signature), 'pubkey': (PublicKey, t.outputs[0].public_key),
            'coinbasedata': (Signature, b.transactions[0].inputs[0].signature),
        }[kind]

    for op in script['ops']:
        if res.violations:
            break
        res.events += 1
        if op['op'] == 'built_in_memory':
            # an object built in memory, looked at (id taken), completed or altered in place, looked at again:
            # the id must be the hash of what the object now encodes to
            b0 = with_tx[op.get('n', 0) % len(with_tx)]
            t0 = b0.transactions[-1]
            tx = Transaction(list(t0.inputs), list(t0.outputs))
            first = tx.hash()
            e = op.get('edit')
            if e == 'wallet_signs_decoded':
                # an unsigned transaction arrives as bytes (placeholders where signatures belong), is decoded, and is
                # signed through the wallet: the id of the result is the hash of the SIGNED encoding
                from skepticoin.wallet import Wallet, sign_transaction
                from seams import entropy
                cands = [(bb, tt) for bb in blocks for tt in bb.transactions[1:]
                         if bb.header.summary.previous_block_hash in sim.chain.blocks]
                if not cands:
                    continue
                bb, tt = cands[op.get('n', 0) % len(cands)]
                parent = sim.chain.blocks[bb.header.summary.previous_block_hash]
                unsigned = Transaction.deserialize(tt.signable_equivalent().serialize())
                unsigned.hash()
                wl = Wallet({W.key(i).pub: W.key(i).priv for i in range(12)}, [], {})
                utxo = sim.cs.unspent_transaction_outs_by_hash[parent.id]
                entropy.install(op.get('n', 0))
                try:
                    signed = sign_transaction(wl, utxo, unsigned)
                finally:
                    entropy.uninstall()
                res.bump('wallet_signed_decoded')
                res.distinct.add('memory:wallet_signs_decoded')
                if signed.hash() != sha256d(signed.serialize()):
                    res.violate(PROP, 'C07/id-is-not-hash-of-canonical-encoding',
                                'a transaction decoded unsigned and then signed by the wallet reports id %s; its signed encoding hashes to %s' % (
                                    signed.hash().hex()[:16], sha256d(signed.serialize()).hex()[:16]))
                    break
                continue
            if e == 'interleaved_serialize':
                # two threads encode at the same time: while this transaction is half-way through its encoding (inside one of its
                # outputs), the other thread encodes a message of its own; neither result may contain anything of the other
                from skepticoin.networking import messages as M_
                other = M_.InventoryMessage([M_.InventoryItem(M_.DATA_BLOCK, sha256d(bytes([j_ % 256]))) for j_ in range(1 + op.get('n', 0) % 7)])
                want_tx, want_other = tx.serialize(), other.serialize()
                victim = tx.outputs[op.get('n', 0) % len(tx.outputs)]
                orig_ss = victim.stream_serialize
                seen = {}

                def hooked(f_):
                    if not seen.get('busy') and 'other' not in seen:
                        seen['busy'] = True
                        seen['other'] = other.serialize()
                        seen['id'] = Transaction(list(t0.inputs), list(t0.outputs)).hash()
                        seen['busy'] = False
                    return orig_ss(f_)
                victim.stream_serialize = hooked
                try:
                    got_tx = tx.serialize()
                    got_id = Transaction(list(tx.inputs), list(tx.outputs)).hash()
                finally:
                    del victim.stream_serialize
                res.bump('probe:encodings_interleaved')
                res.distinct.add('memory:interleaved_serialize')
                if got_tx != want_tx or seen.get('other') != want_other or got_id != sha256d(want_tx) or seen.get('id') != sha256d(want_tx):
                    res.violate(PROP, 'C07/id-is-not-hash-of-canonical-encoding',
                                'two encodings in progress at the same time (one inside the other, as on two threads) disturb each other: '
                                'transaction bytes %s, other message %s, ids %s' % (
                                    'changed' if got_tx != want_tx else 'ok', 'changed' if seen.get('other') != want_other else 'ok',
                                    'changed' if (got_id != sha256d(want_tx) or seen.get('id') != sha256d(want_tx)) else 'ok'))
                    break
                continue
            if e == 'store_roundtrip':
                # "obtained from the store": a decodable block with unusual but encodable field values goes through the real block
                # store (written, store reopened, read back); its id and its transactions' ids are the hashes of what it encodes to
                import skepticoin.blockstore as bs_
                from skepticoin.signing import CoinbaseData as _CD
                a_ = op.get('n', 0)
                gtx_ = Block.deserialize(__import__('skepticoin.genesis', fromlist=['x']).genesis_block_data).transactions[0].hash()
                # (the store's schema ties a reference to a stored output unless its hash is all zeros: only such references can be written)
                odd_inputs = [
                    Input(OutputReference(b'\x00' * 32, 1 + a_ % 5), SignableEquivalent()),      # all-zero hash with a non-zero index
                    Input(OutputReference(b'\x00' * 32, 0xffffffff), t0.inputs[0].signature),
                    Input(OutputReference(b'\x00' * 32, 2 + a_ % 250), _CD(9, b'')),
                    Input(OutputReference(b'\x00' * 32, 0), _CD(7, b'second reward-shaped input')),
                ]
                extra = Transaction([odd_inputs[a_ % len(odd_inputs)]], list(t0.outputs) + [Output(0, W.key(1).pk)])
                s0 = b0.header.summary
                txs_ = [b0.transactions[0], extra]
                gen_ = Block.deserialize(__import__('skepticoin.genesis', fromlist=['x']).genesis_block_data)
                odd = Block(BlockHeader(BlockSummary(1, gen_.hash(), s0.merkle_root_hash, s0.timestamp, s0.target, s0.nonce), b0.header.pow_evidence), txs_)
                odd = Block.deserialize(odd.serialize())
                path_ = os.path.join(env.scratch_dir(), 'c07-%d.db' % os.getpid())
                for sfx in ('', '-journal'):
                    try:
                        os.remove(path_ + sfx)
                    except OSError:
                        pass
                st_ = bs_.BlockStore(path_)
                try:
                    st_.write_blocks_to_disk([odd])
                    st_.close()
                    st_ = bs_.BlockStore(path_)
                    back = [b_ for b_ in st_.read_blocks_from_disk() if b_.header.summary.height == 1]
                finally:
                    try:
                        st_.close()
                    except Exception:
                        pass
                    for sfx in ('', '-journal'):
                        try:
                            os.remove(path_ + sfx)
                        except OSError:
                            pass
                res.bump('store_roundtrips')
                res.distinct.add('memory:store_roundtrip:%d' % (a_ % len(odd_inputs)))
                if len(back) != 1:
                    res.violate(PROP, 'C07/stored-object-not-read-back', 'a decodable block written to the store is read back %d times' % len(back))
                    break
                rb_ = back[0]
                bad = None
                if rb_.hash() != sha256d(rb_.header.serialize()) or rb_.hash() != odd.hash():
                    bad = 'block'
                for t_ in rb_.transactions:
                    if t_.hash() != sha256d(t_.serialize()):
                        bad = 'transaction'
                if bad:
                    res.violate(PROP, 'C07/id-is-not-hash-of-canonical-encoding',
                                'a %s read back from the block store reports an id that is not the double SHA-256 of what it now encodes to' % bad)
                    break
                continue
            if e == 'after_failed_id':
                # id computations that fail half-way (a half-built transaction is looked at, a field does not fit its width)
                # must not influence the id of whatever is built next
                failed = 0
                s0 = b0.header.summary
                attempts = [
                    lambda: Transaction([Input(t0.inputs[0].output_reference, None)], list(t0.outputs)).hash(),
                    lambda: repr(Transaction(list(t0.inputs) + [Input(OutputReference(b'\x07' * 32, 2), None)], list(t0.outputs))),
                    lambda: Transaction(list(t0.inputs), list(t0.outputs) + [Output(1 << 70, W.key(2).pk)]).hash(),
                    lambda: BlockSummary(s0.height, s0.previous_block_hash, s0.merkle_root_hash, 1 << 40, s0.target, s0.nonce).hash(),
                    lambda: BlockHeader(BlockSummary(s0.height, s0.previous_block_hash, s0.merkle_root_hash, s0.timestamp, s0.target, 1 << 33),
                                        b0.header.pow_evidence).hash(),
                ]
                k0 = op.get('n', 0)
                for j in range(1 + k0 % 3):
                    try:
                        attempts[(k0 + j) % len(attempts)]()
                    except Exception:
                        failed += 1
                res.bump('probe:id_computation_failed_half_way', failed)
                res.distinct.add('memory:after_failed_id:%d' % (k0 % len(attempts)))
                fresh_tx = Transaction(list(t0.inputs), list(t0.outputs))
                fresh_sum = BlockSummary(s0.height, s0.previous_block_hash, s0.merkle_root_hash, s0.timestamp + 2, s0.target, s0.nonce)
                fresh_hdr = BlockHeader(fresh_sum, b0.header.pow_evidence)
                fresh_blk = Block(fresh_hdr, list(b0.transactions))
                bad = None
                if fresh_tx.hash() != sha256d(fresh_tx.serialize()):
                    bad = 'transaction'
                elif fresh_sum.hash() != sha256d(fresh_sum.serialize()):
                    bad = 'block summary'
                elif fresh_hdr.hash() != sha256d(fresh_hdr.serialize()):
                    bad = 'block header'
                elif fresh_blk.hash() != sha256d(fresh_hdr.serialize()):
                    bad = 'block'
                if bad:
                    res.violate(PROP, 'C07/id-is-not-hash-of-canonical-encoding',
                                'a %s built in memory right after %d id computation(s) that failed half-way reports an id that is not the '
                                'double SHA-256 of its encoding' % (bad, failed))
                    break
                continue
            if e == 'output_value':
                tx.outputs[0] = Output(tx.outputs[0].value + 1, tx.outputs[0].public_key)
            elif e == 'append_output':
                tx.outputs.append(Output(7, W.key(3).pk))
            elif e == 'signature':
                tx.inputs[0] = Input(tx.inputs[0].output_reference, SignableEquivalent())
            else:
                tx.inputs.append(Input(OutputReference(b'\x09' * 32, 1), SignableEquivalent()))
            res.bump('built_in_memory_edits')
            res.distinct.add('memory:%s' % e)
            if tx.hash() != sha256d(tx.serialize()):
                res.violate(PROP, 'C07/id-is-not-hash-of-canonical-encoding',
                            'a transaction built in memory, hashed, then edited in place (%s) reports id %s; its encoding hashes to %s' % (
                                e, tx.hash().hex()[:16], sha256d(tx.serialize()).hex()[:16]))
                break
            blk = Block(BlockHeader(b0.header.summary, b0.header.pow_evidence), list(b0.transactions))
            h1 = blk.hash()
            s0 = b0.header.summary
            blk.header = BlockHeader(BlockSummary(s0.height, s0.previous_block_hash, s0.merkle_root_hash, s0.timestamp + 1, s0.target, s0.nonce),
                                     b0.header.pow_evidence)
            if blk.hash() != sha256d(blk.header.serialize()):
                res.violate(PROP, 'C07/id-is-not-hash-of-canonical-encoding', 'a block built in memory keeps a stale id after its header changed')
                break
            continue
        if op['op'] == 'rewrite':
            cls, obj = pick(op['type'], op.get('n', 0))
            raw = obj.serialize()
            # identity on the canonical encoding itself
            f = BytesIO(raw)
            back = cls.stream_deserialize(f)
            if f.tell() != len(raw) or back.serialize() != raw or not (back == obj):
                res.violate(PROP, 'C07/encode-decode-not-identity', '%s does not survive encode-then-decode' % op['type'])
                break
            if not check_decoded(res, cls, back, raw, 'canonical %s' % op['type']):
                break
            res.distinct.add('rewrite:%s:%d' % (op['type'], len(raw) // 100))
            for name, pos, mut in rewrites(raw, op.get('stride', 1)):
                f = BytesIO(mut)
                try:
                    o2 = cls.stream_deserialize(f)
                except Exception:
                    res.bump('rewrite_undecodable')
                    continue
                res.bump('rewrite_decoded')
                res.bump('rewrite_decoded:' + name)
                consumed = mut[:f.tell()]
                if not check_decoded(res, cls, o2, consumed, '%s of %s at byte %d' % (name, op['type'], pos)):
                    break
        else:
            try:
                _message_roundtrip(op, res, with_tx, M)
            except Exception as e:
                # building, encoding or decoding a well-formed message raised
                res.violate(PROP, 'C07/message-encode-decode-not-identity', '%s message: building, encoding or decoding it raised %s' % (
                    op.get('kind'), type(e).__name__))
            if res.violations:
                break
    trace.add('codec', res.stats.get('rewrite_decoded', 0), res.stats.get('messages', 0))


def _message_roundtrip(op, res, with_tx, M):
    from ipaddress import IPv6Address
    from io import BytesIO
    if True:
        if True:
            a, n = op.get('a', 0), op.get('n', 0)
            k = op['kind']
            b = with_tx[a % len(with_tx)]
            if k == 'hello':
                msg = M.HelloMessage([M.SupportedVersion(i % 256) for i in range(n % 5)], IPv6Address(a), a % 65536,
                                     IPv6Address((a * 7919) % (1 << 128)), (a >> 7) % 65536, a % (1 << 32), bytes([a % 256]) * (n % 200))
            elif k == 'getblocks':
                msg = M.GetBlocksMessage([sha256d(bytes([i % 256, a % 256])) for i in range(n)], sha256d(b'stop%d' % a))
            elif k == 'inventory':
                msg = M.InventoryMessage([M.InventoryItem(M.DATA_BLOCK, sha256d(bytes([i % 256]))) for i in range(n)])
            elif k == 'getdata':
                msg = M.GetDataMessage(M.DATA_BLOCK if a % 2 else M.DATA_TRANSACTION, sha256d(b'%d' % a))
            elif k == 'data_block':
                msg = M.DataMessage(M.DATA_BLOCK, b)
            elif k == 'data_tx':
                msg = M.DataMessage(M.DATA_TRANSACTION, b.transactions[-1])
            elif k == 'data_header':
                msg = M.DataMessage(M.DATA_HEADER, b.header)
            elif k == 'getpeers':
                msg = M.GetPeersMessage()
            else:
                msg = M.PeersMessage([M.Peer((a + i) % (1 << 32), IPv6Address((a + i) % (1 << 128)), (a + i) % 65536) for i in range(n)])
            hdr = M.MessageHeader(a % (1 << 32), (a >> 3) % (1 << 32), (a >> 5) % (1 << 32), (a * 31) % (1 << 64))
            raw = hdr.serialize() + msg.serialize()
            f = BytesIO(raw)
            h2 = M.MessageHeader.stream_deserialize(f)
            m2 = M.Message.stream_deserialize(f)
            res.bump('messages')
            res.distinct.add('message:%s:%d' % (k, min(n, 130) // 16))
            if f.tell() != len(raw) or h2.serialize() + m2.serialize() != raw or type(m2) is not type(msg):
                res.violate(PROP, 'C07/message-encode-decode-not-identity', '%s message does not survive encode-then-decode' % k)
                return
            for fld in ('timestamp', 'id', 'in_response_to', 'context'):
                if getattr(h2, fld) != getattr(hdr, fld):
                    res.violate(PROP, 'C07/message-encode-decode-not-identity', 'header field %s changed' % fld)
                    break
            for fld, v in vars(msg).items():
                v2 = getattr(m2, fld, None)
                same = v2 == v if not isinstance(v, list) else [x.serialize() if hasattr(x, 'serialize') else x for x in v2] == \
                    [x.serialize() if hasattr(x, 'serialize') else x for x in v]
                if fld == 'data':
                    same = v2.serialize() == v.serialize()
                if not same:
                    res.violate(PROP, 'C07/message-encode-decode-not-identity', '%s field %s changed' % (k, fld))
                    break


def rewrite_at(raw, rw, pos):
    """One rewrite of the requested kind at the first applicable position >= pos (cyclic)."""
    n = len(raw)
    for d in range(n):
        i = (pos + d) % n
        if rw == 'insert80':
            return raw[:i] + b'\x80' + raw[i:]
        if rw == 'drop80' and raw[i] == 0x80 and i + 1 < n:
            return raw[:i] + raw[i + 1:]
        if rw == 'split' and 0x40 <= raw[i] <= 0x7f:
            return raw[:i] + b'\x80' + raw[i:]
    return None


def run_route(script, res):
    from engines.nodesim import NodeWorld
    from refmodel import rules
    from world import ledger as W
    from skepticoin.datatypes import Block, Transaction
    from skepticoin.networking import messages as M
    from seams.bots import MAGIC
    w = NodeWorld(script, PROP, res, n_bots=3)
    try:
        sim, chain, node = w.sim, w.sim.chain, w.node
        if sim.dead or node.loop_error:
            return w
        for op in script['ops']:
            if res.violations or node.loop_error:
                break
            hb = chain.blocks[w.cm.coinstate.current_chain_hash]
            if op['op'] == 'relay_rewritten_block':
                txs, _, _ = sim.build_txs(hb, op.get('txs', []))
                ts = min(hb.ts + 60, w.node_clock() + 5)
                if ts <= hb.ts:
                    continue
                blk = W.mine_honest(W.view_at(sim.cs, hb.id), txs, W.key(op.get('miner', 0) % 12), ts)
                canon = blk.serialize()
                want_id = sha256d(blk.header.serialize())
                # try positions until a rewrite still decodes to the same VALUE (a second encoding of the same content)
                mut = None
                for attempt in range(40):
                    cand = rewrite_at(canon, op.get('rw', 'insert80'), op.get('pos', 0) + attempt * 7)
                    if cand is None:
                        break
                    try:
                        b2 = Block.deserialize(cand)
                    except Exception:
                        continue
                    if b2.serialize() == canon:
                        mut = cand
                        break
                if mut is None:
                    res.bump('no_alternative_encoding_found')
                    payload = canon
                else:
                    res.bump('probe:alternative_encoding_of_same_block_relayed')
                    payload = mut
                c = w.conn(op.get('peer', 0))
                if c is None:
                    continue
                hdr = M.MessageHeader(w.node_clock(), 9, 0, 1).serialize()
                data = hdr + b'\x00\x04\x00' + M.DATA_BLOCK + payload
                c.send_raw(MAGIC + struct.pack('>I', len(data)) + data)
                w.settle(3000)
                cs = w.cm.coinstate
                for key, stored in cs.block_by_hash.items():
                    if stored.serialize() == canon or key == want_id or stored.header.serialize() == blk.header.serialize():
                        if key != want_id:
                            res.violate(PROP, 'C07/content-known-under-second-id',
                                        'a block relayed in a non-canonical encoding entered chain state under id %s; the hash of '
                                        'its canonical header is %s' % (key.hex()[:16], want_id.hex()[:16]))
                            break
                        if stored.hash() != want_id:
                            res.violate(PROP, 'C07/id-is-not-hash-of-canonical-encoding', 'stored block reports a different id')
                            break
                        if key not in chain.blocks:
                            sim.cs = sim.cs.add_block_no_validation(blk)
                            chain.add(blk)
                            sim.stored.append(want_id)
                            sim.block_objs[want_id] = blk
                            res.bump('blocks_entered_state')
                if res.violations:
                    break
                # store round trip: ids read back are hashes of canonical headers
                for b3 in node.store.read_blocks_from_disk():
                    if b3.hash() != sha256d(b3.header.serialize()):
                        res.violate(PROP, 'C07/store-id-is-not-hash-of-canonical-encoding',
                                    'a block reads back from the store under an id that is not the hash of its header')
                        break
                    for t in b3.transactions:
                        if t.hash() != sha256d(t.serialize()):
                            res.violate(PROP, 'C07/store-id-is-not-hash-of-canonical-encoding', 'transaction id from the store')
                            break
                res.bump('store_round_trips')
            else:
                txs, _, _ = sim.build_txs(hb, [op.get('spec', {})], set())
                if not txs:
                    continue
                tx = txs[0]
                canon = tx.serialize()
                mut = None
                for attempt in range(40):
                    cand = rewrite_at(canon, op.get('rw', 'insert80'), op.get('pos', 0) + attempt * 5)
                    if cand is None:
                        break
                    try:
                        t2 = Transaction.deserialize(cand)
                    except Exception:
                        continue
                    if t2.serialize() == canon:
                        mut = cand
                        break
                payload = mut if mut is not None else canon
                if mut is not None:
                    res.bump('probe:alternative_encoding_of_same_transaction_submitted')
                c = w.conn(op.get('peer', 0))
                if c is None:
                    continue
                hdr = M.MessageHeader(w.node_clock(), 9, 0, 1).serialize()
                data = hdr + b'\x00\x04\x00' + M.DATA_TRANSACTION + payload
                c.send_raw(MAGIC + struct.pack('>I', len(data)) + data)
                w.settle(2500)
                for t in w.cm.transaction_pool:
                    if t.hash() != sha256d(t.serialize()):
                        res.violate(PROP, 'C07/content-known-under-second-id',
                                    'a transaction submitted in a non-canonical encoding sits in the pool under id %s; the hash '
                                    'of its canonical encoding is %s' % (t.hash().hex()[:16], sha256d(t.serialize()).hex()[:16]))
                        break
                res.bump('pool_checks')
        res.distinct.add('route:%s:%d' % (script['config'].get('base'), len(script['ops'])))
    finally:
        w.close()
    return w


def execute(script):
    env.setup()
    env.use_fast_scrypt(True)
    res = Result()
    if script['config'].get('mode') == 'route':
        w = run_route(script, res)
        res.digest = w.trace.digest()
    else:
        trace = Trace()
        run_codec(script, res, trace)
        res.digest = trace.digest()
    return res


def describe():
    return {
        'rule': 'one run = codec run (6-14 operations: exhaustive position sweep of the three rewrites over one object, or one '
                'message round trip) or route run (3-8 re-encoded relays/submissions to a real node); distinct = (object type, '
                'size class) / (message type, list-length class) / route configuration; non-trivial = at least one rewritten '
                'encoding was decoded, or one object entered node state',
        'components': {'real': ['skepticoin.serialization, datatypes, signing codecs', 'networking.messages codecs',
                                'route runs: LocalPeer, handlers, ChainManager, BlockStore (real SQLite)'],
                       'stub': ['simulated network, Bots', 'scrypt stand-in']},
        'assumptions': ['canonical = what the repo encoder produces'],
        'expected_probes': ['rewrite_decoded', 'rewrite_undecodable', 'messages', 'store_round_trips', 'pool_checks',
                            'blocks_entered_state'],
    }
