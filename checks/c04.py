"""C04 — fork choice: the head is the first-seen block of greatest total work (= height);
tips = stored blocks without stored children; by-height index at every block = its ancestors + itself."""
import itertools

from simkit.core import Streams, Result, Trace
from seams import env

PROP = 'C04'
LEVEL = 'exploration'
BUDGET = {
    'quick': {'runs': 20000, 'wall': 120, 'chunk': 100},
    'thorough': {'runs': 300000, 'wall': 1500, 'chunk': 200},
}
MANIFEST = {
    'engine': 'ledger-sim',
    'level': 'exploration',
    'text': 'Seeded search over block trees given as parent-choice sequences (3-40 blocks: ties at every height, late longer '
            'side chains, side chains that tie but never exceed, three-way forks, double reorganisations) delivered through '
            'both add paths; after every arrival head, tip set, by-height index of every stored block and forks() are '
            'compared with a reference fork choice that knows only arrival order and heights. Run 0 of every batch '
            'additionally enumerates all 720 parent-choice sequences of 6 blocks (reported, not the deciding step).'
            ' 30% of the trees are installed in a real ChainManager after every arrival and read back from there; 3% have a side branch starting 100-135 blocks below the tip of a long chain.'
            " Trees may start 1-4 blocks below a retarget boundary (rival blocks then state different targets); in served trees some blocks are found by the node's own miner (real MinerWatcher handlers: candidate requested at one moment, winning hash delivered after other arrivals).",
    'note': 'Trusted: reference fork choice (refmodel/rules.py RefChain.head/tips/ancestors); blocks are assembled by the '
            'repo; scrypt stand-in on the validated path; hollow base or real genesis as root.',
}


def generate(seed, tier):
    rng = Streams(seed).get('gen')
    base = rng.choice(['hreal', 'hreal', 'hlow', 'hboundary'])
    n = rng.randint(3, 40 if tier == 'thorough' else 28)
    shape = rng.choice(['random', 'two_chains', 'late_longer', 'ties', 'bushy', 'double_reorg'])
    deep_m = 0
    if rng.random() < 0.03:
        # a side branch that starts 100 or more blocks below the tip of a long chain
        shape = 'deep'
        deep_m = rng.randint(100, 135)
        n = deep_m + rng.randint(1, 6)
    ops = []
    for i in range(n):
        if shape == 'deep':
            if i < deep_m:
                p = i
            elif i == deep_m:
                p = rng.randrange(0, max(1, deep_m - 99))
            else:
                p = i if rng.random() < 0.8 else rng.randrange(i + 1)
        elif shape == 'random':
            p = rng.randrange(i + 1)
        elif shape == 'two_chains':
            p = max(0, i - rng.choice([0, 0, 1, 1, 2]))
        elif shape == 'late_longer':
            half = n // 2
            p = i if i < half else (rng.randrange(1 + half // 3) if i == half else i)
        elif shape == 'ties':
            p = max(0, i - 1 - (i % 2)) if rng.random() < 0.8 else rng.randrange(i + 1)
        elif shape == 'bushy':
            p = rng.randrange(max(1, (i + 1) // 2))
        else:  # double_reorg: A grows, B overtakes, A overtakes again
            third = max(1, n // 3)
            if i < third:
                p = i
            elif i == third:
                p = 0
            elif i < 2 * third + 1:
                p = i
            elif i == 2 * third + 1:
                p = third
            else:
                p = i
        ops.append({'op': 'add', 'parent': p, 'path': rng.choice(['validated', 'novalidation']) if not (shape == 'deep' and i < deep_m) else 'novalidation',
                    'dt': rng.randrange(1, 1000), 'miner': rng.randrange(12)})
    # every state is installed in a node's chain manager and read back from there (what the node reports)
    served = rng.random() < 0.3
    if served and base != 'hlow' and shape != 'deep' and rng.random() < 0.5:
        # some blocks are found by the node's own miner: the candidate is requested at one moment and the winning hash comes
        # back later, after other blocks have arrived (a found block is an arrival like any other: its parent is stored)
        for _ in range(rng.randint(1, 3)):
            i = rng.randrange(len(ops) + 1)
            ops.insert(i, {'op': 'mine_request'})
            ops.insert(rng.randrange(i + 1, len(ops) + 1), {'op': 'mine_output'})
    # hboundary: the root is 1-4 blocks below a retarget boundary, so rival blocks at and above it state different targets
    return {'config': {'mode': 'tree', 'base': base, 'shape': shape, 'served': served,
                       'k': rng.randint(1, 4), 'elapsed': rng.randint(600_000, 1_150_000)}, 'ops': ops}


def generate_i(seed, tier, i):
    if i == 0:
        return {'config': {'mode': 'enumerate', 'n': 6, 'base': 'hlow'}, 'ops': []}
    return generate(seed, tier)


def _check_state(res, cs, chain, stored, full):
    from refmodel import rules
    ref_head = chain.head()
    if cs.current_chain_hash != ref_head.id:
        real_h = chain.blocks[cs.current_chain_hash]
        res.violate(PROP, 'C04/head-not-first-seen-of-greatest-height',
                    'head is arrival #%d height %d; first-arrived block of greatest height is #%d height %d' % (
                        real_h.arrival, real_h.height, ref_head.arrival, ref_head.height))
        return False
    tips = chain.tips()
    if set(cs.heads.keys()) != tips:
        res.violate(PROP, 'C04/tips-differ', 'reported tips %d, blocks without children %d' % (len(cs.heads), len(tips)))
        return False
    for t, blk in cs.heads.items():
        if rules.block_id(blk) != t:
            res.violate(PROP, 'C04/tips-differ', 'tip map entry does not hold its block')
            return False
    root_h = chain.blocks[stored[0]].height
    todo = stored if full else stored[-3:] + stored[:2] + stored[len(stored) // 2:len(stored) // 2 + 1]
    for bid in todo:
        rb = chain.blocks[bid]
        try:
            idx = cs.block_by_height_by_hash[bid]
        except KeyError:
            res.violate(PROP, 'C04/height-index-differs', 'there is no by-height index at stored block %s (height %d, head at %d)' % (
                bid.hex()[:12], rb.height, ref_head.height))
            return False
        anc = chain.ancestors(rb)
        if len(idx) != root_h + len(anc):
            res.violate(PROP, 'C04/height-index-differs', 'index at %s has %d entries, expected %d' % (
                bid.hex()[:12], len(idx), root_h + len(anc)))
            return False
        for h, aid in anc.items():
            e = idx.get(h)
            if e is None or rules.block_id(e) != aid:
                res.violate(PROP, 'C04/height-index-differs', 'index at %s height %d is not the ancestor' % (
                    bid.hex()[:12], h))
                return False
    if full:
        head_anc = set(chain.ancestors(ref_head).values())
        fk = cs.forks()
        if sorted(rules.block_id(a) for a, _ in fk) != sorted(tips):
            res.violate(PROP, 'C04/forks-differ', 'forks() does not list one pair per tip')
            return False
        for tip, lca in fk:
            tid, lid = rules.block_id(tip), rules.block_id(lca)
            if lid not in head_anc or lid not in set(chain.ancestors(chain.blocks[tid]).values()):
                res.violate(PROP, 'C04/forks-differ', 'fork point is not a common ancestor of tip and head')
                return False
            # it is the LAST common ancestor
            for h, aid in chain.ancestors(chain.blocks[tid]).items():
                if h > chain.blocks[lid].height and aid in head_anc:
                    res.violate(PROP, 'C04/forks-differ', 'fork point is not the latest common ancestor')
                    return False
    return True


def _run_tree(script, res, trace):
    import skepticoin.consensus as consensus
    from engines.ledger import reset_horizon, HARD_TARGET
    from world import ledger as W
    from refmodel import rules
    from refmodel.rules import RefChain
    base = script['config'].get('base', 'hreal')
    if base == 'hlow':
        reset_horizon(True)
        cs, root = W.genesis_base()
        chain = RefChain()
    elif base == 'hboundary':
        reset_horizon(False)
        cfg_ = script['config']
        cs, root = W.hollow_base_with_start(171_360 - cfg_.get('k', 2), W.TRIVIAL_TARGET, 171_360 - 10_080,
                                            W.BASE_TS - cfg_.get('elapsed', 1_000_000))
        chain = RefChain(lambda h: 0)
    else:
        reset_horizon(False)
        cs, root, _ = W.hollow_base(W.H_REAL, W.TRIVIAL_TARGET)
        chain = RefChain(lambda h: 0)
    chain.add_root(root)
    stored = [rules.block_id(root)]
    seen_heads = []
    ops = script['ops']
    cm = None
    if script['config'].get('served'):
        from skepticoin.networking.local_peer import LocalPeer
        from types import SimpleNamespace
        # (the store is not this property's subject: found blocks are handed to a stub)
        lp = LocalPeer(disk_interface=SimpleNamespace(save_block=lambda b_: None, flush_blocks=lambda: None))
        import skepticoin.mining as mining
        saved_m = {n_: mining.__dict__.get(n_) for n_ in ('save_wallet', 'time')}
        try:
            cm = lp.chain_manager
            cm.set_coinstate(cs)
            res.bump('probe:state_served_by_chain_manager')
            miner = None
            if any(o.get('op') in ('mine_request', 'mine_output') for o in ops):
                from decimal import Decimal
                from datetime import datetime
                from skepticoin.wallet import Wallet
                wk = [W.key(300 + i) for i in range(8)]
                watcher = object.__new__(mining.MinerWatcher)
                watcher.args = SimpleNamespace(quiet=True, n=1)
                watcher.send_queues = [SimpleNamespace(put=lambda item: None)]
                watcher.processes, watcher.hash_stats, watcher.mining_args, watcher.log_silencer = [], {}, {}, []
                watcher.balance = watcher.start_balance = Decimal(0)
                watcher.start_time = datetime.fromtimestamp(0)
                watcher.wallet = Wallet({k_.pub: k_.priv for k_ in wk}, [k_.pub for k_ in wk], {})
                watcher.coinstate = cs
                watcher.network_thread = SimpleNamespace(local_peer=lp)
                watcher.public_key = watcher.wallet.get_annotated_public_key('reserved for potentially mined block')
                mining.save_wallet = lambda w_: None
                miner = {'watcher': watcher, 'pending': False, 'clock': [0]}
                mining.time = lambda: miner['clock'][0]
            _run_ops(script, res, trace, cs, chain, stored, ops, base, cm, miner)
        finally:
            for n_, v_ in saved_m.items():
                if v_ is not None:
                    setattr(mining, n_, v_)
            lp.selector.close()
        return
    _run_ops(script, res, trace, cs, chain, stored, [o for o in ops if o.get('op', 'add') == 'add'], base, cm)


def _run_ops(script, res, trace, cs, chain, stored, ops, base, cm, miner=None):
    import skepticoin.consensus as consensus
    from world import ledger as W
    from refmodel import rules
    for n, op in enumerate(ops):
        if op.get('op') in ('mine_request', 'mine_output'):
            if miner is None:
                continue
            watcher = miner['watcher']
            head_rb = chain.blocks[cs.current_chain_hash]
            miner['clock'][0] = max(b_.ts for b_ in chain.blocks.values()) + 5
            if op['op'] == 'mine_request':
                with env.quiet():
                    watcher.handle_request_scrypt_input_message(0, n)
                miner['pending'] = True
                res.bump('candidates_requested')
                continue
            if not miner['pending']:
                continue
            miner['pending'] = False
            summary = watcher.mining_args[0][0]
            old_head = cs.current_chain_hash
            try:
                with env.quiet():
                    watcher.handle_scrypt_output_message(0, consensus.construct_summary_hash(summary, summary.height))
            except Exception as e:
                res.violate(PROP, 'C04/arrival-raised', 'the node\'s own found-block handler raised %s for a candidate on a stored parent' % type(e).__name__)
                return
            cs = cm.coinstate
            new = [b_ for h_, b_ in cs.block_by_hash.items() if h_ not in chain.blocks]
            # did the hash win?  decided here from the candidate itself (parent's ancestry taken from the reference's view)
            won = None
            try:
                from skepticoin.datatypes import Block as _B, BlockHeader as _BH
                txs_ = watcher.mining_args[0][-1]
                view_ = W.view_at(cs, summary.previous_block_hash)
                ev_ = consensus.construct_pow_evidence_after_scrypt(consensus.construct_summary_hash(summary, summary.height), view_,
                                                                    summary, summary.height, txs_)
                cand_ = _B(_BH(summary, ev_), txs_)
                won = cand_.hash() < cand_.target
            except Exception:
                won = None
            if won and not new:
                res.violate(PROP, 'C04/found-block-not-stored', 'the node\'s miner found a block (id below target) on a stored parent, but it is '
                            'not among the stored blocks afterwards: its children will count as out of order')
                return
            if not new:
                res.bump('mined_hash_not_below_target')
                # nothing arrived; everything stored before must still be there
                if not _check_state(res, cs, chain, stored, full=True):
                    return
                continue
            if len(new) != 1 or set(cs.block_by_hash.keys()) - {rules.block_id(new[0])} != set(chain.blocks.keys()):
                res.violate(PROP, 'C04/stored-blocks-changed-by-found-block',
                            'after the node found a block the stored blocks are not the previous ones plus that block (%d stored, %d before)' % (
                                len(cs.block_by_hash), len(chain.blocks)))
                return
            blk = new[0]
            chain.add(blk)
            stored.append(rules.block_id(blk))
            res.events += 1
            res.bump('probe:block_found_by_the_nodes_miner')
            if blk.header.summary.previous_block_hash != old_head:
                res.bump('probe:found_block_on_a_parent_that_is_no_longer_the_head')
            trace.add('mined', rules.block_id(blk), cs.current_chain_hash)
            if not _check_state(res, cs, chain, stored, full=True):
                return
            continue
        rb = chain.blocks[stored[op['parent'] % len(stored)]]
        ts = rb.ts + max(1, op.get('dt', 1))
        view = W.view_at(cs, rb.id)
        validated = op.get('path') == 'validated' and base != 'hlow'
        # the node's own assembly, with a nonce search (above a retarget boundary the target is no longer the trivial one)
        # (on the real genesis the stated target is the real network's: no search there, and only the unvalidated path)
        if base == 'hlow':
            blk = consensus.construct_block_for_mining(view, [], W.key(op.get('miner', 0) % 12).pk, ts, b'', n)
        else:
            blk = W.mine_honest(view, [], W.key(op.get('miner', 0) % 12), ts, nonce0=n)
        bid = rules.block_id(blk)
        if bid in chain.blocks:
            res.bump('duplicate_skipped')
            continue
        old_head = cs.current_chain_hash
        try:
            if validated:
                cs = cs.add_block(blk, ts)
            else:
                cs = cs.add_block_no_validation(blk)
        except Exception as e:
            res.violate(PROP, 'C04/arrival-raised', 'adding a block assembled by the node on a stored parent raised %s' % type(e).__name__)
            return
        if cm is not None:
            try:
                cm.set_coinstate(cs, validated=validated)
            except Exception as e:
                res.violate(PROP, 'C04/arrival-raised', 'installing the state after an arrival in the node\'s chain manager raised %s' % type(e).__name__)
                return
            cs = cm.coinstate
        chain.add(blk)
        stored.append(bid)
        res.events += 1
        trace.add('add', bid, cs.current_chain_hash)
        new_rb = chain.blocks[bid]
        old_rb = chain.blocks[old_head]
        if new_rb.height == old_rb.height and new_rb.parent.id != old_head:
            res.bump('probe:tie_arrived')
        if cs.current_chain_hash != old_head and new_rb.parent.id != old_head:
            res.bump('probe:reorganisation')
        if new_rb.height < old_rb.height:
            res.bump('probe:shorter_side_block')
        if new_rb.height == old_rb.height and new_rb.target != old_rb.target:
            res.bump('probe:tie_between_blocks_stating_different_targets')
        if new_rb.height + 100 <= old_rb.height:
            res.bump('probe:side_block_100_or_more_below_the_head')
        if not _check_state(res, cs, chain, stored, full=(n == len(ops) - 1 or n % 7 == 0)):
            return
    # distinct measure: canonical tree shape (sorted parent-height profile) x arrival
    prof = tuple(chain.blocks[b].parent.arrival if chain.blocks[b].parent else -1 for b in stored)
    res.distinct.add('tree:%x' % (hash_profile(prof)))


def hash_profile(prof):
    import hashlib
    return int.from_bytes(hashlib.sha256(repr(prof).encode()).digest()[:6], 'big')


def _run_enumerate(script, res, trace):
    n = script['config'].get('n', 6)
    count = 0
    for choice in itertools.product(*[range(i + 1) for i in range(n)]):
        sub = {'config': {'mode': 'tree', 'base': 'hlow'},
               'ops': [{'op': 'add', 'parent': p, 'path': 'novalidation', 'dt': 1 + i, 'miner': i}
                       for i, p in enumerate(choice)]}
        _run_tree(sub, res, trace)
        count += 1
        if res.violations:
            res.violations[0]['detail'] += ' [enumerated sequence %s]' % (choice,)
            break
    res.bump('enumerated_parent_choice_sequences', count)
    res.sample = {'enumerated_sequences_of_%d_blocks' % n: count}


def execute(script):
    env.setup()
    env.use_fast_scrypt(True)
    res = Result()
    trace = Trace()
    if script['config'].get('mode') == 'enumerate':
        _run_enumerate(script, res, trace)
    else:
        _run_tree(script, res, trace)
    res.digest = trace.digest()
    return res


def describe():
    return {
        'rule': 'one run = one block tree given as a parent-choice sequence (each new block picks any earlier block), '
                'delivered through add_block or add_block_no_validation; distinct = distinct parent-arrival profile '
                '(tree shape x arrival order); non-trivial = every generated tree has at least 3 blocks; oracle after '
                'every arrival',
        'components': {'real': ['skepticoin.coinstate.CoinState (add_block, add_block_no_validation, forks)',
                                'skepticoin.consensus (assembly, validation on the validated path)', 'skepticoin.datatypes'],
                       'stub': ['scrypt stand-in', 'hollow base / real genesis root']},
        'assumptions': ['work = height, as the statement says', 'duplicate arrivals of a stored block are outside the quantifier'],
        'expected_probes': ['probe:tie_arrived', 'probe:reorganisation', 'probe:shorter_side_block',
                            'probe:side_block_100_or_more_below_the_head', 'probe:state_served_by_chain_manager',
                            'probe:tie_between_blocks_stating_different_targets',
                            'enumerated_parent_choice_sequences'],
    }
