"""C19 — peer book stays consistent and reconnects with bounded back-off; peer file replaced atomically."""
import json

from simkit.core import Streams, Result, Trace
from seams import env

PROP = 'C19'
LEVEL = 'exploration'
BUDGET = {
    'quick': {'runs': 500, 'wall': 170, 'chunk': 4},
    'thorough': {'runs': 20000, 'wall': 1700, 'chunk': 10},
}
MANIFEST = {
    'engine': 'peerbook-sim + fs-crash-sim',
    'level': 'exploration',
    'text': 'One real LocalPeer whose whole environment is 3-8 scripted addresses with seeded behaviours (greets, silent, '
            'refuses, times out, closes after greeting, is the node itself, announces peers incl. the node\'s own address, '
            'non-IPv4 and already known ones) that change over time; events: virtual time from seconds to weeks (one '
            'long-horizon configuration lets an address fail for 60+ virtual days), incoming connections with arbitrary '
            'advertised ports (fresh and duplicate keys), remote closes and resets, restarts from the peer file, clock jumps '
            'forward and backward. After every node step: no address both connected and waiting, no exception from a '
            'manager step; every outgoing attempt is checked against an independent back-off model (min(10 s x 2^k, 30 min), '
            'give-up beyond the configured failures); a detected self-connection is dropped and never retried; announcements '
            'never change an existing entry. Every peer-file write is re-executed with a process crash at every durable '
            'boundary (file = complete old or new list, <= 100 entries, most recent first).'
            " The node's own address appears in its peer book / peer exchange (must not be attempted again once detected), some hosts never answer (attempt ends by timeout), one address may be listed under two keys."
            " The node's own address may sit behind a port forward (dialled port differs from the listening port)."
            ' The peer-file sweep also starts from a damaged file on disk (torn, empty, garbage - what an earlier session may leave behind): recording a greeted peer replaces it.',
    'note': 'Trusted: RefBackoff model in this file, SimFS crash model, simulated network; greetings are observed at the '
            'node\'s greeting handler (an observation wrapper installed by the harness at run time, not a repo hook).',
}

BEHAVIOURS = ['greets', 'greets', 'silent', 'refuses', 'timeout', 'unreachable', 'closes_after_hello', 'announcer', 'self', 'self_forwarded']


def generate(seed, tier):
    rng = Streams(seed).get('gen')
    long_run = rng.random() < 0.1
    scale = 'long' if long_run else rng.choice(['fine', 'fine', 'medium'])
    n_addr = rng.randint(3, 8)
    addrs = []
    for i in range(n_addr):
        addrs.append({'host': '10.0.2.%d' % (i + 1), 'port': rng.choice([2412, 2412, 2413, 9000 + i]),
                      'behaviour': rng.choice(BEHAVIOURS), 'known': rng.random() < 0.7})
    if long_run:
        # weeks of virtual time: only addresses that never greet (no protocol traffic), so runs stay cheap
        for a in addrs:
            a['behaviour'] = rng.choice(['refuses', 'refuses', 'timeout', 'silent', 'unreachable'])
        addrs[0]['behaviour'] = 'refuses'
        addrs[0]['known'] = True
    ops = []
    n = rng.randint(10, 40 if tier == 'quick' else 80)
    for _ in range(n):
        x = rng.random()
        if x < 0.4:
            if long_run:
                dt = rng.choice([3_600_000, 86_400_000, 7 * 86_400_000])
            elif scale == 'fine':
                dt = rng.choice([1000, 5000, 11_000, 21_000, 30_000, 41_000, 61_000, 90_000])
            else:
                dt = rng.choice([61_000, 200_000, 700_000, 1_900_000, 3_700_000, 7_200_000])
            ops.append({'op': 'tick', 'dt': dt})
        elif x < 0.55:
            ops.append({'op': 'toggle', 'addr': rng.randrange(1, n_addr) if long_run else rng.randrange(n_addr),
                        'behaviour': rng.choice(['refuses', 'timeout', 'silent', 'unreachable']) if long_run else rng.choice(BEHAVIOURS[:-2])})
        elif x < 0.7:
            ops.append({'op': 'incoming', 'addr': rng.randrange(n_addr), 'my_port': rng.choice([0, 2412, 2413, 9000, 'same']),
                        'greet': rng.random() < 0.8 and not long_run})
        elif x < 0.8:
            ops.append({'op': 'close', 'addr': rng.randrange(n_addr), 'how': rng.choice(['close', 'reset'])})
        elif x < 0.87:
            ops.append({'op': 'restart'})
        elif x < 0.94:
            ops.append({'op': 'clock_jump', 'dt': rng.choice([-3600_000, -60_000, 60_000, 3600_000, 86_400_000])})
        elif x < 0.97:
            ops.append({'op': 'duplicate_key', 'direction': rng.choice(['OUTGOING', 'OUTGOING', 'INCOMING']), 'n': rng.randrange(100)})
        else:
            ops.append({'op': 'write_peers_crash', 'addr': rng.randrange(n_addr), 'preload': rng.choice([0, 1, 5, 99, 100, 130]),
                        'damaged': rng.choice([None, None, 'torn', 'garbage', 'empty']),
                        'stamps': rng.choice(['old', 'mixed', 'future'])})
    if long_run:
        ops += [{'op': 'tick', 'dt': 7 * 86_400_000} for _ in range(10)]
    return {'config': {'addrs': addrs, 'long': long_run, 'slow': {'long': 1800, 'medium': 30, 'fine': 1}[scale], 'scale': scale,
                       'raw_write_size': rng.choice([64, 300, 8192])}, 'ops': ops}


class RefBackoff:
    """Per address: time of the previous attempt and consecutive attempts that ended without a greeting."""

    def __init__(self, max_failures):
        self.max = max_failures
        self.a = {}

    def reset(self):
        self.a = {}

    def attempt(self, addr, t):
        e = self.a.setdefault(addr, {'prev': None, 'k': 0, 'open': False, 'greeted': False, 'self': False})
        problem = None
        if e['self']:
            problem = 'an address detected as the node itself was attempted again'
        elif e['prev'] is not None:
            need = min(10 * 2 ** e['k'], 1800)
            if t - e['prev'] < need:
                problem = 'retried after %d s; %d consecutive attempts ended without greeting, so at least %d s are required' % (
                    t - e['prev'], e['k'], need)
            if e['k'] > self.max:
                problem = 'retried after %d consecutive failures (configured maximum %d)' % (e['k'], self.max)
        e['prev'] = t
        e['open'] = True
        e['greeted'] = False
        return problem

    def greeted(self, addr):
        e = self.a.get(addr)
        if e is not None:
            e['greeted'] = True
            e['k'] = 0

    def ended(self, addr):
        e = self.a.get(addr)
        if e is not None and e['open']:
            e['open'] = False
            if not e['greeted']:
                e['k'] += 1


def execute(script):
    env.setup()
    env.use_fast_scrypt(True)
    from seams.net import Kernel, SimNode, Shims
    from seams.bots import Bot
    from seams.fs import Crash
    from ipaddress import IPv6Address
    import skepticoin.networking.remote_peer as rp
    import skepticoin.networking.disk_interface as di
    from skepticoin.networking.params import MAX_CONNECTION_ATTEMPTS
    from skepticoin.coinstate import CoinState
    from skepticoin.networking import messages as M

    res = Result()
    cfg = script['config']
    k = Kernel(script.get('seed', 0), {'lat_max': 100})
    trace = k.trace
    sh = Shims(k)
    sh.install()
    node = SimNode(k, 'N', '10.0.0.1', port=2412)
    node.slow = cfg.get('slow', 1)
    node.fs.raw_write_size = cfg.get('raw_write_size', 8192)
    ref = RefBackoff(MAX_CONNECTION_ATTEMPTS)
    bots = []
    state = {'violated': False}
    orig_hello = rp.ConnectedRemotePeer.handle_hello_message_received
    orig_connect = k.net.connect
    self_addrs = set()
    own_dials = [0]

    def hello_wrapper(self, header, message):
        if self.direction == 'OUTGOING' and self.local_peer is node.lp:
            ref.greeted((self.host, self.port))
            if message.nonce == node.lp.nonce:
                e = ref.a.get((self.host, self.port))
                if e is not None:
                    e['self'] = True
                    self_addrs.add((self.host, self.port))
        return orig_hello(self, header, message)

    def connect_wrapper(sock, addr):
        if sock.owner is node:
            t = int(node.clock_s())
            res.bump('outgoing_attempts')
            problem = ref.attempt((addr[0], addr[1]), t)
            if (addr[0], addr[1]) == ('10.0.0.1', 2412):
                # the node's own listening address: the first connection to it must be recognised (by whichever end) and the
                # address never dialled again in this incarnation
                own_dials[0] += 1
                if own_dials[0] > 1 and not problem:
                    problem = 'an address detected as the node itself was attempted again (dial #%d of its own address)' % own_dials[0]
            trace.add(k.now, 'attempt', addr[0], addr[1], t)
            if problem and not state['violated']:
                state['violated'] = True
                cls = 'C19/self-address-retried' if 'itself' in problem else ('C19/retried-beyond-give-up' if 'maximum' in problem else 'C19/retried-too-soon')
                res.violate(PROP, cls, '%s:%d %s' % (addr[0], addr[1], problem))
        return orig_connect(sock, addr)

    rp.ConnectedRemotePeer.handle_hello_message_received = hello_wrapper
    k.net.connect = connect_wrapper

    def after_step(n):
        nm = n.lp.network_manager
        both = set(nm.connected_peers) & set(nm.disconnected_peers)
        if both and not state['violated']:
            state['violated'] = True
            res.violate(PROP, 'C19/address-both-connected-and-waiting', 'key %s is recorded as connected and as waiting' % (sorted(both)[0],))
        # connections of ours that ended: tell the reference (an outgoing key that is no longer connected)
        for addr, e in ref.a.items():
            if e['open'] and (addr[0], addr[1], 'OUTGOING') not in nm.connected_peers:
                ref.ended(addr)
        for addr in self_addrs:
            if (addr[0], addr[1], 'OUTGOING') in nm.connected_peers and not state['violated']:
                p = nm.connected_peers[(addr[0], addr[1], 'OUTGOING')]
                if p.hello_received:
                    state['violated'] = True
                    res.violate(PROP, 'C19/self-connection-not-dropped', 'a connection to the node itself is still registered')

    node.on_step = after_step

    def make_bot(i, a):
        beh = a['behaviour']
        if beh == 'self':
            return None
        if beh == 'self_forwarded':
            # an address of the node's own that is not its listening address (port forward, NAT hairpin): dialling it reaches the
            # node's own listener; the greeting it gets back announces the listening port, not the dialled one
            k.net.aliases[(a['host'], a['port'])] = ('10.0.0.1', 2412)
            return None
        b = Bot(k, 'addr%d' % i, a['host'], {
            'greet': beh in ('greets', 'closes_after_hello', 'announcer'), 'silent': beh == 'silent',
            'close_after_hello': beh == 'closes_after_hello', 'my_port': a['port'],
            'peers': ([('10.0.0.1', 2412), (cfg['addrs'][0]['host'], cfg['addrs'][0]['port']), ('10.0.3.%d' % (i + 1), 2412)]
                      if beh == 'announcer' else [])})
        if beh in ('greets', 'silent', 'closes_after_hello', 'announcer'):
            b.listen(a['port'])
        if beh == 'timeout':
            k.net.blackholes.add((a['host'], a['port']))
        if beh == 'unreachable':
            k.net.unreachable.add(a['host'])
        return b

    def apply_behaviour(i, beh):
        a = cfg['addrs'][i]
        b = bots[i]
        if b is None:
            return
        k.net.blackholes.discard((a['host'], a['port']))
        k.net.unreachable.discard(a['host'])
        if b.lsock is not None and b.lsock.state == 'listening':
            b.lsock.close()
            b.lsock = None
        b.b.update({'greet': beh in ('greets', 'closes_after_hello', 'announcer'), 'silent': beh == 'silent',
                    'close_after_hello': beh == 'closes_after_hello',
                    'peers': ([('10.0.0.1', 2412), ('10.0.3.%d' % (i + 1), 2412)] if beh == 'announcer' else [])})
        if beh in ('greets', 'silent', 'closes_after_hello', 'announcer'):
            b.listen(a['port'])
        if beh == 'timeout':
            k.net.blackholes.add((a['host'], a['port']))
        if beh == 'unreachable':
            k.net.unreachable.add(a['host'])

    try:
        with_self = []
        for i, a in enumerate(cfg['addrs']):
            if a['behaviour'] == 'self':
                a = dict(a, host='10.0.0.1', port=2412)
                cfg['addrs'][i] = a
            bots.append(make_bot(i, a))
        known = [(a['host'], a['port']) for a in cfg['addrs'] if a.get('known')] or [(cfg['addrs'][0]['host'], cfg['addrs'][0]['port'])]
        node.boot(CoinState.zero(), peers=known)
        # an initial peer file, as a running node would have
        k.current = node
        node.fs.files['peers.json'] = json.dumps([[h, p, 'OUTGOING', '2023-01-01T00:00:00Z'] for (h, p) in known]).encode()
        k.current = None
        for op in script['ops']:
            if res.violations:
                break
            kind = op['op']
            if kind == 'tick':
                k.run(k.now + op.get('dt', 1000), max_events=400_000)
            elif kind == 'toggle':
                i = op['addr'] % len(bots)
                apply_behaviour(i, op['behaviour'])
                res.bump('behaviour_changes')
            elif kind == 'incoming':
                i = op['addr'] % len(bots)
                b = bots[i]
                if b is None:
                    continue
                mp = op.get('my_port', 0)
                b.b['my_port'] = cfg['addrs'][i]['port'] if mp == 'same' else mp
                old_greet = b.b.get('greet')
                b.b['greet'] = bool(op.get('greet'))
                b.connect(('10.0.0.1', 2412))
                k.run(k.now + 1500)
                b.b['greet'] = old_greet
                res.bump('incoming_connections')
            elif kind == 'close':
                b = bots[op['addr'] % len(bots)]
                if b is None:
                    continue
                for c in b.conns:
                    if not c.closed:
                        if op.get('how') == 'reset':
                            k.net.reset_connection(c.sock, 'scripted')
                        c.close()
                        res.bump('remote_closes')
                k.run(k.now + 500)
            elif kind == 'duplicate_key':
                # a second connection under a key that is already connected (the book must drop the old one and stay consistent)
                nm = node.lp.network_manager
                keys = sorted(kk for kk in nm.connected_peers if kk[2] == op.get('direction'))
                if not keys:
                    continue
                key = keys[op.get('n', 0) % len(keys)]
                k.current = node
                try:
                    if key[2] == 'OUTGOING':
                        ref.a.setdefault((key[0], key[1]), {'prev': None, 'k': 0, 'open': False, 'greeted': False, 'self': False})
                        ref.a[(key[0], key[1])]['prev'] = None      # an explicit dial by the caller is not a back-off retry
                        dp = nm.connected_peers[key].as_disconnected()
                        dp.last_connection_attempt = int(node.clock_s())     # what NetworkManager.step records before dialling
                        try:
                            node.lp.start_outgoing_connection(dp)
                        except Exception as e:
                            nmx = node.lp.network_manager
                            both = sorted(set(nmx.connected_peers) & set(nmx.disconnected_peers))
                            res.violate(PROP, 'C19/address-both-connected-and-waiting' if both else 'C19/connect-raised',
                                        'a second connection under an already connected key raised %s: %s%s' % (
                                            type(e).__name__, e, (' - recorded as connected and waiting: %s' % (both[0],)) if both else ''))
                            state['violated'] = True
                            break
                    else:
                        src = [b for b in bots if b is not None and b.host == key[0]]
                        if not src:
                            continue
                        k.net.force_local_port = key[1]
                        src[0].connect(('10.0.0.1', 2412))
                finally:
                    k.current = None
                res.bump('duplicate_key_connections')
                k.run(k.now + 1500)
            elif kind == 'clock_jump':
                node.skew_ms += op.get('dt', 0)
                res.bump('fault:clock_jump_backward' if op.get('dt', 0) < 0 else 'fault:clock_jump_forward')
            elif kind == 'restart':
                k.current = node
                try:
                    have = 'peers.json' in node.fs.files and json.loads(node.fs.files['peers.json'].decode()) != []
                finally:
                    k.current = None
                if not have:
                    continue
                node.crash()
                k.current = node
                try:
                    peers = di.DiskInterface().load_peers()
                finally:
                    k.current = None
                node.boot(CoinState.zero(), peers=sorted({(h, p) for (h, p, d) in peers.keys()}))
                node.on_step = after_step
                ref.reset()
                self_addrs.clear()
                own_dials[0] = 0
                res.bump('fault:restart')
            elif kind == 'write_peers_crash':
                a = cfg['addrs'][op['addr'] % len(cfg['addrs'])]
                fs = node.fs
                k.current = node
                try:
                    orig_snap = fs.snapshot()
                    # (stamps of existing rows are whatever earlier sessions, other clocks or hand merges left: older, equal to or later
                    #  than this node's clock now, or missing; the order of the file is the order of greeting, not of stamps)
                    stamps = {'old': ['2023-01-01T00:00:00Z'], 'mixed': ['2023-01-01T00:00:00Z', '2999-12-31T23:59:59Z', '2999-12-31T23:59:59Z'],
                              'future': ['2999-12-31T23:59:59Z']}[op.get('stamps', 'old')]
                    pre = [['10.9.%d.%d' % (j // 250, j % 250), 2412, 'OUTGOING', stamps[j % len(stamps)]] for j in range(op.get('preload', 0))]
                    if pre:
                        fs.files['peers.json'] = json.dumps(pre).encode()
                    damaged = None
                    if op.get('damaged') and 'peers.json' in fs.files:
                        # what an earlier session may leave behind (two processes writing the same .new file, a hand edit, a bad
                        # sector): a peer file that is not JSON; the next greeting replaces it by a list of that one peer
                        whole = fs.files['peers.json']
                        damaged = {'torn': whole[:max(1, len(whole) // 2)], 'empty': b'',
                                   'garbage': b'\x00\xff{]' + whole[:7]}[op['damaged']]
                        fs.files['peers.json'] = damaged
                        res.bump('fault:damaged_peer_file_on_disk')
                    old_snap = fs.snapshot()
                    old_list = (json.loads(old_snap['peers.json'].decode()) if 'peers.json' in old_snap else None) if damaged is None else None
                    peer = rp.RemotePeer(a['host'], a['port'], 'OUTGOING', None, 0)
                    d = di.DiskInterface()
                    fs.crash_at = None
                    fs.reset_boundaries()
                    try:
                        with env.quiet():
                            d.write_peers(peer)
                        new_raw = fs.files.get('peers.json')
                        new_list = json.loads(new_raw.decode())
                    except Crash:
                        raise
                    except Exception as e:
                        res.violate(PROP, 'C19/peer-file-write-raised', 'recording a greeted peer raised %s%s' % (
                            type(e).__name__, ' (the peer file on disk was damaged: %s)' % op['damaged'] if damaged is not None else ''))
                        fs.restore(orig_snap)
                        break
                    nb, log = fs.boundary, list(fs.log)
                    want = [[a['host'], a['port'], 'OUTGOING']] + [r[:3] for r in (old_list or []) if r[:3] != [a['host'], a['port'], 'OUTGOING']]
                    if [r[:3] for r in new_list] != want[:100] or len(new_list) > 100:
                        res.violate(PROP, 'C19/peer-file-content-wrong', 'peer file holds %d entries; expected the greeted peer first, '
                                    'then the previous entries, at most 100' % len(new_list))
                        break
                    points = []
                    for j in range(nb):
                        points.append(j)
                        if log[j][0] == 'write' and log[j][2] and log[j][2] > 1:
                            points.append((j, 'torn', log[j][2] // 2))
                    for pt in points:
                        fs.restore(old_snap)
                        fs.crash_at = pt
                        fs.reset_boundaries()
                        try:
                            with env.quiet():
                                d.write_peers(peer)
                            raise RuntimeError('harness: crash point not reached')
                        except Crash:
                            pass
                        fs.crash_at = None
                        res.bump('fault:crash_in_peer_file_write')
                        raw = fs.files.get('peers.json')
                        ok = False
                        if raw is None:
                            ok = old_list is None
                        elif damaged is not None and raw == damaged:
                            ok = True       # the damaged file of the earlier session, untouched so far
                        else:
                            try:
                                got = json.loads(raw.decode())
                                ok = got == new_list or got == old_list
                            except Exception:
                                ok = False
                        if not ok:
                            res.violate(PROP, 'C19/peer-file-not-atomic', 'crash at boundary %r (%s): peers.json is neither the complete '
                                        'previous nor the complete new list' % (pt, log[pt[0] if isinstance(pt, tuple) else pt][0]))
                            break
                    fs.crash_at = None
                    fs.restore(orig_snap)      # the synthetic 100+ entry book is only for this sweep
                    res.bump('peer_file_writes_swept')
                finally:
                    k.current = None
            if node.loop_error and not res.violations:
                res.violate(PROP, 'C19/manager-step-raised', '%s: %s' % node.loop_error[:2])
        if node.loop_error and not res.violations:
            res.violate(PROP, 'C19/manager-step-raised', '%s: %s' % node.loop_error[:2])
        # announcements never change an existing entry / liveness probe
        kmax = max([e['k'] for e in ref.a.values()] or [0])
        res.bump('max_consecutive_failures_seen', 0)
        res.stats['max_consecutive_failures_seen'] = max(res.stats.get('max_consecutive_failures_seen', 0), kmax)
        if kmax >= 8:
            res.bump('probe:backoff_reached_cap')
        if kmax > MAX_CONNECTION_ATTEMPTS:
            res.bump('probe:gave_up_after_max_failures')
        if self_addrs:
            res.bump('probe:self_connection_detected')
        res.distinct.add('book:%d:%s:%d' % (len(cfg['addrs']), cfg.get('long'), min(kmax, 12)))
        res.virtual_s += k.now / 1000.0
        res.events += k.steps
        for kk, v in k.stats.items():
            res.bump(kk, v)
    finally:
        rp.ConnectedRemotePeer.handle_hello_message_received = orig_hello
        k.net.connect = orig_connect
        try:
            if node.store is not None:
                node.store.close()
        except Exception:
            pass
        sh.uninstall()
    res.digest = trace.digest()
    return res


def describe():
    return {
        'rule': 'one run = one seeded environment of 3-8 addresses and 10-80 events; distinct = (addresses, long-horizon?, '
                'maximum consecutive failures reached capped at 12); non-trivial = at least one outgoing attempt judged',
        'components': {'real': ['NetworkManager (connected/disconnected maps, step)', 'DisconnectedRemotePeer.is_time_to_connect',
                                'ConnectedRemotePeer greeting/peers handlers', 'LocalPeer connect/accept/disconnect', 'DiskInterface.write_peers/load_peers'],
                       'stub': ['simulated TCP/selector/clock', 'addresses are Bots', 'SimFS for peers.json']},
        'assumptions': ['back-off reference resets at a restart (the node forgets failure counts)',
                        'a slow node (steps every minutes) is used for the multi-week runs'],
        'expected_probes': ['fault:damaged_peer_file_on_disk', 'outgoing_attempts', 'incoming_connections', 'remote_closes', 'fault:restart', 'fault:clock_jump_backward',
                            'peer_file_writes_swept', 'fault:crash_in_peer_file_write', 'probe:backoff_reached_cap',
                            'probe:self_connection_detected', 'fault:connect_timeout', 'connect_refused', 'duplicate_key_connections'],
    }
