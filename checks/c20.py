"""C20 — malformed input from a peer is contained to that connection."""
import struct

from simkit.core import Streams, Result
from seams import env
from checks import ledger_common as LC

PROP = 'C20'
LEVEL = 'exploration'
BUDGET = {
    'quick': {'runs': 800, 'wall': 170, 'chunk': 4},
    'thorough': {'runs': 30000, 'wall': 1700, 'chunk': 10},
}
MANIFEST = {
    'engine': 'node-sim with adversary',
    'level': 'exploration',
    'text': 'One real node with 2-3 honest scripted connections carrying ordinary traffic (valid relays, transactions) and an '
            'adversarial connection that, at seeded moments and fragmented by the simulated transport, sends ~35 kinds of '
            'malformed input: broken framing (magic, length), undecodable payloads (truncated, unknown message/data types, '
            'bad version bytes, bit-flipped and spliced real frames), messages before the greeting, DATA_HEADER, GetData for '
            'transactions, oversized inventories, structurally invalid blocks and transactions of every stand-alone kind '
            '(as relays and as unsolicited responses), duplicate floods, random bytes. After every settle: no exception '
            'left the event loop or a manager step, chain state / head / pool / store rows equal the adversary-free '
            'expectation, every honest connection is still registered, greeted and parseable; at most the adversarial '
            'connection was closed.'
            ' Also: a connection aborted while it waits in the accept queue; a rule-breaking block pushed as a response by one peer while another peer had been asked for it; blocks announced, requested and served with a wrong height.'
            ' Malformed input (framing, decoding, by-itself-invalid blocks and transactions) also arrives while a bulk download from another peer is in progress: the blocks installed unvalidated and only buffered are chain state like any other and must stay; a validated block then ends the download.',
    'note': 'Frames are bounded (<= 64 KiB): CPU/memory exhaustion inputs are out of scope (no cost model). Well-formed '
            'responses nobody asked for (out of protocol order) carry rule-breaking blocks; blocks announced, requested and then '
            'served with a height that is not parent + 1 (in protocol order, structurally inconsistent) must be refused. '
            'Rule-breaking but structurally consistent blocks served in answer to the node\'s own request are the bulk-download '
            'trust model of this code (every 10,000th block is validated) and are not sent.',
}

ADV = ['bad_magic', 'len_over', 'len_zero', 'garbage', 'pre_hello_getblocks', 'pre_hello_data', 'pre_hello_garbage',
       'pre_hello_valid_tx', 'pre_hello_valid_tx', 'pre_hello_valid_block', 'pre_hello_valid_block',
       'corrupt_body_then_honest', 'corrupt_body_then_honest', 'short_length_valid_block', 'short_length_valid_tx',
       'unknown_msg_type', 'bad_version', 'truncated_payload', 'unknown_data_type', 'data_header', 'getdata_tx',
       'getdata_unknown', 'inv_oversize', 'inv_unknown_type', 'struct_block', 'struct_block_response', 'struct_tx',
       'flip_known_block', 'flip_frame', 'splice', 'dup_flood', 'hello_twice', 'peers_weird', 'trailing', 'truncate_then_valid',
       'bad_tx_payload', 'bad_block_payload', 'huge_vlq', 'inv_known', 'getblocks_unknown', 'close_mid_frame', 'instate_invalid_relay',
       'instate_invalid_unrequested_response', 'instate_invalid_unrequested_response', 'announced_then_served_wrong_height',
       'announced_then_served_wrong_height', 'reset_in_accept_queue']
STRUCT_BLOCKS = ['no_txs', 'dup_tx', 'wrong_merkle', 'merkle_dup_last', 'reward_two_inputs', 'reward_real_ref', 'reward_null_ref_index', 'two_rewards',
                 'reward_not_first', 'reward_height_differs', 'out_zero', 'null_ref', 'placeholder_sig', 'dup_ref_in_tx',
                 'dup_ref_in_block', 'outs_sum_over_max']
STRUCT_TX = ['no_outputs', 'out_zero', 'over_max', 'dup_ref', 'null_ref', 'placeholder', 'coinbasedata_sig', 'no_inputs']
INSTATE = ['sig_other_key', 'reward_plus_one', 'spend_missing', 'outs_exceed_inputs', 'ts_before_parent', 'target_minus_1',
           'ev_sample', 'height_plus_2', 'spend_same_block', 'spend_same_block', 'spend_noncurve_key_output', 'dup_ref_in_block']


# malformed input that fails before any rule that looks at the chain (framing, decoding, the block-by-itself rules)
WHILE_BULK = ['bad_magic', 'len_over', 'garbage', 'unknown_msg_type', 'truncated_payload', 'unknown_data_type', 'bad_block_payload',
              'bad_tx_payload', 'struct_tx', 'struct_block', 'struct_block', 'struct_block_response', 'corrupt_body_then_honest',
              'corrupt_body_then_honest']
WHILE_BULK_BLOCKS = ['no_txs', 'wrong_merkle', 'two_rewards', 'reward_not_first']


def generate(seed, tier):
    rng = Streams(seed).get('gen')
    base = 'hreal' if rng.random() < 0.6 else 'hlow_easy'
    build = [LC.gen_mine(rng, latest_bias=0.8, max_txs=2) for _ in range(rng.randint(2, 5))]
    for m in build:
        m['clock'] = 0
        m['via'] = 'memory'
    ops = []
    for _ in range(rng.randint(10, 26 if tier == 'quick' else 60)):
        x = rng.random()
        if x < 0.22:
            m = LC.gen_mine(rng, latest_bias=0.7, max_txs=2)
            m.update({'op': 'honest_relay', 'peer': rng.randrange(3), 'overlap': rng.random() < 0.4, 'clock': 0})
            ops.append(m)
        elif x < 0.345 and x >= 0.32:
            # a bulk download in progress (blocks installed unvalidated, only buffered for the store) while malformed input
            # arrives from another peer: the download's blocks are chain state like any other
            ops.append({'op': 'bulk_then_malformed', 'n': rng.choice([1, 2, 3]), 'peer': rng.randrange(3), 'miner': rng.randrange(12),
                        'adv': rng.choice(WHILE_BULK), 'sub': rng.choice(WHILE_BULK_BLOCKS), 'a': rng.randrange(100000), 'b': rng.randrange(1000)})
        elif x < 0.32:
            ops.append({'op': 'honest_tx', 'spec': LC.gen_tx_spec(rng), 'peer': rng.randrange(3), 'overlap': rng.random() < 0.4})
        else:
            ops.append({'op': 'adv', 'kind': rng.choice(ADV), 'a': rng.randrange(100000), 'b': rng.randrange(1000),
                        'overlap': rng.random() < 0.3})
    return {'config': {'base': base, 'build': build, 'honest': rng.randint(2, 3)}, 'ops': ops}


def execute(script):
    import random
    env.setup()
    from engines.nodesim import NodeWorld
    from engines import forgeries
    from refmodel import rules
    from world import ledger as W
    from seams.bots import Bot, MAGIC
    from ipaddress import IPv6Address
    from skepticoin.networking import messages as M
    from skepticoin.datatypes import Transaction, Input, Output, OutputReference
    from skepticoin.signing import SignableEquivalent, CoinbaseData

    res = Result()
    cfg = script['config']
    nh = cfg.get('honest', 2)
    w = NodeWorld(script, PROP, res, n_bots=nh)
    try:
        sim, chain, node = w.sim, w.sim.chain, w.node
        if sim.dead or node.loop_error:
            return res
        adv = Bot(w.k, 'adv', '10.0.9.9', {'greet': False, 'my_port': 0})
        adv2 = {}
        expected_ids = set(sim.stored)
        expected_pool = []
        honest_pending = []
        rng = random.Random(script.get('seed', 0))

        def adv_conn(greeted=True):
            live = [c for c in adv.conns if not c.closed and c.sock.state == 'established' and (c.hello_out == greeted)]
            if live and greeted and live[-1].hello_in:
                return live[-1]
            c = adv.connect(('10.0.0.1', 2412))
            w.settle(600)
            if greeted:
                adv.hello(c)
                w.settle(1500)
            return c

        def frame(payload):
            return MAGIC + struct.pack('>I', len(payload)) + payload

        def hdr(i=1, resp=0):
            return M.MessageHeader(w.node_clock(), i, resp, 77).serialize()

        def known_block():
            bid = sim.stored[rng.randrange(len(sim.stored))]
            return sim.block_objs[bid]

        def struct_tx(kind, a):
            hb = chain.head()
            txs, _, _ = sim.build_txs(hb, [{'ins': [a], 'outs': [[a, 1]], 'fee_ppm': 0}])
            if not txs:
                return None
            t = txs[0]
            r = t.inputs[0].output_reference
            ref0 = (r.hash, r.index)
            v0, pub0 = hb.utxo[ref0]
            k0 = W.key_by_pub(pub0)
            if kind == 'no_outputs':
                return W.make_tx([ref0], [], [k0])
            if kind == 'no_inputs':
                return Transaction([], [Output(5, k0.pk)])
            if kind == 'out_zero':
                return W.make_tx([ref0], [(v0, k0), (0, k0)], [k0])
            if kind == 'over_max':
                return W.make_tx([ref0], [(rules.MAX_SASHIMI + 1, k0)], [k0])
            if kind == 'dup_ref':
                return W.make_tx([ref0, ref0], [(v0, k0)], [k0, k0])
            if kind == 'null_ref':
                return W.make_tx([ref0, (rules.ZERO32, 0)], [(v0, k0)], [k0, k0])
            if kind == 'placeholder':
                return W.make_tx([ref0], [(v0, k0)], [SignableEquivalent()])
            return W.make_tx([ref0], [(v0, k0)], [CoinbaseData(3, b'q')])

        def forged_block(kind, op):
            try:
                made = forgeries.build(sim, kind, chain.head(), dict(op, dt=1, clock=0))
            except (W.Unminable, ValueError, OverflowError):
                return None
            if made is None:
                return None
            blk = made[0]
            if blk.header.summary.timestamp > w.node_clock() + 10:
                return None
            return blk

        def do_adv(op):
            kind, a, b = op['kind'], op.get('a', 0), op.get('b', 0)
            good = hdr() + M.GetPeersMessage().serialize()
            pre = kind.startswith('pre_hello')
            c = adv_conn(greeted=not pre)
            if c is None:
                return
            res.bump('adv:' + kind)
            res.distinct.add('adv:%s:%s' % (kind, cfg.get('base')))
            send = c.send_raw
            if kind == 'bad_magic':
                mg = bytearray(MAGIC)
                mg[a % 4] ^= 1 << (b % 8)
                send(bytes(mg) + struct.pack('>I', len(good)) + good)
            elif kind == 'len_over':
                send(MAGIC + struct.pack('>I', 32 * 1024 * 1024 + 1 + a) + good)
            elif kind == 'len_zero':
                send(frame(b'') + frame(good))
            elif kind in ('garbage', 'pre_hello_garbage'):
                send(bytes(rng.randrange(256) for _ in range(1 + a % 600)))
            elif kind == 'pre_hello_getblocks':
                send(frame(hdr() + M.GetBlocksMessage([known_block().hash()]).serialize()))
            elif kind == 'pre_hello_data':
                send(frame(hdr() + M.DataMessage(M.DATA_BLOCK, known_block()).serialize()))
            elif kind == 'pre_hello_valid_tx':
                # out of protocol order, otherwise perfectly valid: must have no effect
                hb = chain.head()
                taken = set()
                for t in expected_pool:
                    taken |= {(i.output_reference.hash, i.output_reference.index) for i in t.inputs}
                txs, _, _ = sim.build_txs(hb, [{'ins': [a], 'outs': [[a, 1], [b, 2]], 'fee_ppm': 1000}], taken)
                if not txs:
                    return
                send(frame(hdr() + M.DataMessage(M.DATA_TRANSACTION, txs[0]).serialize()))
            elif kind == 'corrupt_body_then_honest':
                # the adversary sends the NEXT valid block with its header intact and its body damaged (same block id);
                # afterwards an honest peer relays the intact block, which must be accepted as if nothing had happened
                hb = chain.head()
                ts = hb.ts + 1
                if ts > w.node_clock() + 10 or any(k_ == 'block' for k_, _ in honest_pending):
                    return
                txs, _, _ = sim.build_txs(hb, [{'ins': [a], 'outs': [[a, 1], [b, 2]], 'fee_ppm': 0}])
                blk = W.roundtrip(W.mine_honest(W.view_at(sim.cs, hb.id), txs, W.key(a % 12), ts, nonce0=b))
                raw = bytearray(blk.serialize())
                hl = len(blk.header.serialize())
                pos = hl + 1 + (a * 7919 + b) % (len(raw) - hl - 1)
                raw[pos] ^= 1 << (b % 8)
                send(frame(hdr() + b'\x00\x04\x00' + M.DATA_BLOCK + bytes(raw)))
                w.settle(2500)
                hc = w.conn(b % nh)
                if hc is not None:
                    hc.send(M.DataMessage(M.DATA_BLOCK, blk))
                    honest_pending.append(('block', blk))
            elif kind in ('short_length_valid_block', 'short_length_valid_tx'):
                # a frame whose length field announces fewer bytes than the (otherwise valid, new) object needs, the rest
                # following in the same segment: malformed framing, so nothing may come of it
                hb = chain.head()
                if kind == 'short_length_valid_block':
                    ts = hb.ts + 1
                    if ts > w.node_clock() + 10:
                        return
                    obj = M.DataMessage(M.DATA_BLOCK, W.roundtrip(W.mine_honest(W.view_at(sim.cs, hb.id), [], W.key(a % 12), ts, nonce0=b + 7)))
                else:
                    taken = set()
                    for t in expected_pool:
                        taken |= {(i.output_reference.hash, i.output_reference.index) for i in t.inputs}
                    txs, _, _ = sim.build_txs(hb, [{'ins': [a], 'outs': [[a, 1]], 'fee_ppm': 0}], taken)
                    if not txs:
                        return
                    obj = M.DataMessage(M.DATA_TRANSACTION, txs[0])
                payload = hdr() + obj.serialize()
                k_ = 1 + (a % max(1, min(60, len(payload) - 60)))
                send(MAGIC + struct.pack('>I', len(payload) - k_) + payload + frame(good))
            elif kind == 'pre_hello_valid_block':
                hb = chain.head()
                ts = hb.ts + 1
                if ts > w.node_clock() + 10:
                    return
                blk = W.roundtrip(W.mine_honest(W.view_at(sim.cs, hb.id), [], W.key(a % 12), ts, nonce0=b))
                send(frame(hdr() + M.DataMessage(M.DATA_BLOCK, blk).serialize()))
            elif kind == 'unknown_msg_type':
                send(frame(hdr() + bytes([a % 256, 7 + b % 200]) + b'\x00' * (a % 40)))
            elif kind == 'bad_version':
                msg = [M.GetBlocksMessage([known_block().hash()]), M.InventoryMessage([]), M.GetDataMessage(M.DATA_BLOCK, b'\x01' * 32),
                       M.DataMessage(M.DATA_BLOCK, known_block()), M.GetPeersMessage(), M.PeersMessage([])][a % 6].serialize()
                send(frame(hdr() + msg[:2] + bytes([1 + b % 255]) + msg[3:]))
            elif kind == 'truncated_payload':
                full = hdr() + M.DataMessage(M.DATA_BLOCK, known_block()).serialize()
                send(frame(full[:max(1, a % len(full))]))
            elif kind == 'unknown_data_type':
                send(frame(hdr() + b'\x00\x04\x00' + bytes([a % 256, 3 + b % 250]) + known_block().serialize()))
            elif kind == 'data_header':
                send(frame(hdr() + b'\x00\x04\x00' + M.DATA_HEADER + known_block().header.serialize()))
            elif kind == 'getdata_tx':
                send(frame(hdr() + M.GetDataMessage(M.DATA_TRANSACTION, b'\x07' * 32).serialize()))
            elif kind == 'getdata_unknown':
                send(frame(hdr() + M.GetDataMessage(M.DATA_BLOCK, bytes([a % 256]) * 32).serialize()))
            elif kind == 'inv_oversize':
                items = [M.InventoryItem(M.DATA_BLOCK, struct.pack('>I', i) * 8) for i in range(501 + a % 50)]
                send(frame(hdr() + M.InventoryMessage(items).serialize()))
            elif kind == 'inv_unknown_type':
                send(frame(hdr() + M.InventoryMessage([M.InventoryItem(bytes([a % 256, b % 256]), known_block().hash())]).serialize()))
            elif kind == 'inv_known':
                send(frame(hdr() + M.InventoryMessage([M.InventoryItem(M.DATA_BLOCK, known_block().hash())]).serialize()))
            elif kind == 'getblocks_unknown':
                send(frame(hdr() + M.GetBlocksMessage([bytes([a % 256]) * 32, bytes([b % 256]) * 32]).serialize()))
            elif kind in ('struct_block', 'struct_block_response'):
                blk = forged_block(op.get('sub') or STRUCT_BLOCKS[a % len(STRUCT_BLOCKS)], op)
                if blk is None:
                    return
                try:
                    payload = M.DataMessage(M.DATA_BLOCK, blk).serialize()
                except Exception:
                    return
                send(frame(hdr(resp=(0 if kind == 'struct_block' else 1 + b)) + payload))
            elif kind in ('instate_invalid_relay', 'instate_invalid_unrequested_response'):
                # the second kind is out of protocol order: a "response" (in_response_to != 0) to a request the node never made
                blk = forged_block(INSTATE[a % len(INSTATE)], op)
                if blk is None:
                    return
                if kind == 'instate_invalid_unrequested_response' and b % 2:
                    # ... while ANOTHER peer has announced that very block and has been asked for it (and is slow to answer):
                    # what the node requested from one peer says nothing about what a different peer pushes
                    if 'bot' not in adv2:
                        adv2['bot'] = Bot(w.k, 'adv2', '10.0.9.8', {'greet': False, 'my_port': 0, 'hold_getdata': True})
                    live2 = [c_ for c_ in adv2['bot'].conns if not c_.closed and c_.hello_in]
                    if not live2:
                        c2_ = adv2['bot'].connect(('10.0.0.1', 2412))
                        w.settle(600)
                        adv2['bot'].hello(c2_)
                        w.settle(1500)
                        live2 = [c_ for c_ in adv2['bot'].conns if not c_.closed and c_.hello_in]
                    if live2:
                        live2[-1].offer_block(blk)
                        w.settle(2000)
                        if live2[-1].held:
                            res.bump('probe:block_requested_from_another_peer_then_pushed_by_this_one')
                send(frame(hdr(resp=(0 if kind == 'instate_invalid_relay' else 1 + b)) + M.DataMessage(M.DATA_BLOCK, blk).serialize()))
            elif kind == 'announced_then_served_wrong_height':
                # in protocol order, but structurally inconsistent: the peer announces a block, the node asks for it, and what is
                # served claims a height that is not its parent's plus one
                blk = forged_block(['height_plus_2', 'height_same', 'height_low_pure'][a % 3], op)
                if blk is None:
                    return
                par_ = chain.blocks.get(blk.header.summary.previous_block_hash)
                if par_ is None or blk.header.summary.height == par_.height + 1:
                    return          # (a "low" height can coincide with parent + 1 on a short chain: then nothing is structurally wrong)
                bid_ = rules.block_id(blk)
                adv.b['serve'] = {'blocks': {bid_: blk}, 'chain': []}
                send(frame(hdr() + M.InventoryMessage([M.InventoryItem(M.DATA_BLOCK, bid_)]).serialize()))
                w.settle(2500)
                served = sum(1 for c_ in adv.conns for (_t, _h, m_, _p) in c_.received
                             if isinstance(m_, M.GetDataMessage) and m_.hash == bid_)
                if served:
                    res.bump('probe:node_requested_the_announced_forgery')
            elif kind == 'reset_in_accept_queue':
                # a connection is aborted by its initiator before the node gets round to accepting it
                s_ = w.k.net.socket(adv)
                s_.reset_on_establish = True
                s_.connect_ex(('10.0.0.1', 2412))
                w.settle(1500)
                try:
                    s_.close()
                except Exception:
                    pass
            elif kind == 'struct_tx':
                tx = struct_tx(STRUCT_TX[a % len(STRUCT_TX)], b)
                if tx is None:
                    return
                send(frame(hdr() + M.DataMessage(M.DATA_TRANSACTION, tx).serialize()))
            elif kind in ('flip_known_block', 'flip_frame'):
                if kind == 'flip_known_block':
                    payload = bytearray(hdr() + M.DataMessage(M.DATA_BLOCK, known_block()).serialize())
                else:
                    payload = bytearray(hdr() + [M.GetBlocksMessage([known_block().hash()]), M.GetPeersMessage(),
                                                 M.InventoryMessage([M.InventoryItem(M.DATA_BLOCK, known_block().hash())]),
                                                 M.GetDataMessage(M.DATA_BLOCK, known_block().hash())][a % 4].serialize())
                for _ in range(1 + b % 3):
                    i = rng.randrange(53, len(payload))
                    payload[i] ^= 1 << rng.randrange(8)
                send(frame(bytes(payload)))
            elif kind == 'splice':
                f1 = frame(hdr() + M.DataMessage(M.DATA_BLOCK, known_block()).serialize())
                f2 = frame(hdr(2) + M.GetBlocksMessage([known_block().hash()]).serialize())
                send(f1[:len(f1) // 2 + a % 7] + f2[len(f2) // 3:])
            elif kind == 'dup_flood':
                f = frame(hdr() + M.DataMessage(M.DATA_BLOCK, known_block()).serialize()) if a % 2 else frame(good)
                send(f * (5 + b % 20))
            elif kind == 'hello_twice':
                adv.hello(c)
                adv.hello(c)
            elif kind == 'peers_weird':
                peers = [M.Peer(0, IPv6Address('::ffff:10.0.0.1'), 2412), M.Peer(0, IPv6Address('2001:db8::1'), 1),
                         M.Peer(0, IPv6Address('::ffff:10.0.9.9'), a % 65536), M.Peer(5, IPv6Address('::ffff:10.0.1.1'), 0)]
                send(frame(hdr() + M.PeersMessage(peers).serialize()))
            elif kind == 'trailing':
                send(frame(good + bytes(a % 50)))
            elif kind == 'truncate_then_valid':
                f1 = frame(hdr() + M.GetBlocksMessage([known_block().hash()]).serialize())
                send(f1[:len(f1) - 1 - a % 20] + frame(good) + frame(good))
            elif kind == 'bad_tx_payload':
                send(frame(hdr() + b'\x00\x04\x00' + M.DATA_TRANSACTION + bytes([a % 3]) + bytes(rng.randrange(256) for _ in range(b % 80))))
            elif kind == 'bad_block_payload':
                raw = bytearray(known_block().serialize())
                cut = max(1, a % len(raw))
                send(frame(hdr() + b'\x00\x04\x00' + M.DATA_BLOCK + bytes(raw[:cut])))
            elif kind == 'huge_vlq':
                send(frame(hdr() + b'\x00\x02\x00' + b'\xff' * (3 + a % 40) + b'\x7f'))
            elif kind == 'close_mid_frame':
                f1 = frame(hdr() + M.DataMessage(M.DATA_BLOCK, known_block()).serialize())
                send(f1[:max(5, a % len(f1))])
                w.settle(300)
                c.close()
            w.trace.add(w.k.now, 'adv', kind)

        def check(what):
            if node.loop_error:
                res.violate(PROP, 'C20/exception-left-event-loop', '%s: %s: %s' % ((what,) + node.loop_error[:2]))
                return False
            if not node.lp.running:
                res.violate(PROP, 'C20/event-loop-stopped', '%s: the node stopped its event loop' % what)
                return False
            ids = w.node_ids()
            if ids != expected_ids:
                res.violate(PROP, 'C20/chain-state-changed', '%s: chain state has %d unexpected and lacks %d expected blocks' % (
                    what, len(ids - expected_ids), len(expected_ids - ids)))
                return False
            if w.cm.coinstate.current_chain_hash != chain.head().id:
                res.violate(PROP, 'C20/chain-state-changed', '%s: head changed' % what)
                return False
            pool = sorted(w.pool_ids())
            if pool != sorted(rules.tx_id(t) for t in expected_pool):
                res.violate(PROP, 'C20/pool-changed', '%s: pool has %d transactions, expected %d' % (what, len(pool), len(expected_pool)))
                return False
            if w.store_ids() != expected_ids - unflushed:
                res.violate(PROP, 'C20/store-changed', '%s: store rows differ from the accepted blocks' % what)
                return False
            nm = node.lp.network_manager
            for b in w.bots:
                for c in b.conns:
                    if c in closed_by_us:
                        continue
                    if c.closed or c.errors:
                        res.violate(PROP, 'C20/honest-connection-affected', '%s: an honest connection was closed or garbled: %s' % (what, c.errors))
                        return False
                    if c.hello_in and c.hello_out:
                        key = (c.sock.local[0], c.sock.local[1], 'INCOMING')
                        p = nm.connected_peers.get(key)
                        if p is None or not (p.hello_sent and p.hello_received) or p.sock not in node.lp.selector.get_map():
                            res.violate(PROP, 'C20/honest-connection-affected', '%s: an honest peer is no longer registered/greeted' % what)
                            return False
            return True

        closed_by_us = set()
        unflushed = set()       # blocks of a bulk download in progress: chain state, but only buffered for the store

        def settle_all(what):
            nonlocal expected_pool, honest_pending
            w.settle(3500)
            # honest deliveries since the last settle: all must have taken effect (adversary-free expectation)
            for kind, obj in honest_pending:
                if kind == 'block':
                    bid = rules.block_id(obj)
                    if bid not in chain.blocks:
                        sim.cs = sim.cs.add_block_no_validation(obj)
                        chain.add(obj)
                        sim.stored.append(bid)
                        sim.block_objs[bid] = obj
                        expected_ids.add(bid)
                        unflushed.clear()       # a validated block takes everything buffered to the store with it
                        res.bump('honest_blocks')
                else:
                    expected_pool.append(obj)
                    res.bump('honest_transactions')
            if honest_pending:
                # arrival order of overlapped honest blocks is the node's own
                nh_ = w.cm.coinstate.current_chain_hash
                if nh_ in chain.blocks and chain.blocks[nh_].height == chain.head().height and nh_ != chain.head().id:
                    chain.order.remove(nh_)
                    chain.order.insert(0, nh_)
                hb = chain.head()
                expected_pool = [t for t in expected_pool if not rules.judge_transaction(t, hb.utxo, sim.sig_cache)[0]]
                # two honest transactions submitted concurrently may conflict: first-come wins, as the node decided
                kept, taken = [], set()
                pool_ids = w.pool_ids()
                for t in sorted(expected_pool, key=lambda t: pool_ids.index(rules.tx_id(t)) if rules.tx_id(t) in pool_ids else 1 << 30):
                    r = {(i.output_reference.hash, i.output_reference.index) for i in t.inputs}
                    if not (r & taken):
                        kept.append(t)
                        taken |= r
                expected_pool = kept
            honest_pending = []
            return check(what)

        dirty = False
        for op in script['ops']:
            if res.violations or node.loop_error:
                break
            kind = op['op']
            if kind == 'honest_relay':
                rb = sim.parent_of(op.get('tip', -1))
                if any(k == 'block' for k, _ in honest_pending):
                    if not settle_all('before relay'):
                        break
                    rb = sim.parent_of(op.get('tip', -1))
                used = set()
                txs, _, _ = sim.build_txs(rb, op.get('txs', []))
                ts = rb.ts + max(1, op.get('dt', 60))
                if ts > w.node_clock() + 10:
                    ts = rb.ts + 1
                    if ts > w.node_clock() + 10:
                        continue
                blk = W.roundtrip(W.mine_honest(W.view_at(sim.cs, rb.id), txs, W.key(op.get('miner', 0) % 12), ts))
                if rules.block_id(blk) in chain.blocks:
                    continue
                c = w.conn(op.get('peer', 0))
                c.send(M.DataMessage(M.DATA_BLOCK, blk))
                honest_pending.append(('block', blk))
                dirty = True
            elif kind == 'bulk_then_malformed':
                if not settle_all('before bulk download'):
                    break
                hb = chain.head()
                n_b = op.get('n', 1)
                if hb.ts + n_b + 2 > w.node_clock() + 10:
                    continue
                c = w.conn(op.get('peer', 0))
                if c is None:
                    continue
                taken_ok = True
                for j_ in range(n_b):
                    hb = chain.head()
                    blk = W.roundtrip(W.mine_honest(W.view_at(sim.cs, hb.id), [], W.key(op.get('miner', 0) % 12), hb.ts + 1, data=b'bulk%d' % j_))
                    bid = rules.block_id(blk)
                    c.offer_block(blk)           # announce, be asked, serve
                    w.settle(3000)
                    if bid not in w.node_ids() or w.cm.coinstate is w.cm.last_known_valid_coinstate:
                        # not taken, or taken with full validation: no download in progress (nothing wrong with that)
                        if bid in w.node_ids():
                            honest_pending.append(('block', blk))
                        taken_ok = False
                        break
                    sim.cs = sim.cs.add_block_no_validation(blk)
                    chain.add(blk)
                    sim.stored.append(bid)
                    sim.block_objs[bid] = blk
                    expected_ids.add(bid)
                    unflushed.add(bid)
                if not settle_all('during bulk download'):
                    break
                if not taken_ok:
                    res.bump('bulk_download_not_in_progress')
                    continue
                res.bump('probe:malformed_input_during_bulk_download')
                do_adv({'kind': op['adv'], 'a': op.get('a', 0), 'b': op.get('b', 0), 'sub': op.get('sub')})
                if not settle_all('after %s during a bulk download' % op['adv']):
                    break
                # the download ends with a validated block (relayed by another honest peer)
                hb = chain.head()
                if unflushed:
                    blk = W.roundtrip(W.mine_honest(W.view_at(sim.cs, hb.id), [], W.key(3), hb.ts + 1, data=b'closing'))
                    c2 = w.conn(op.get('peer', 0) + 1)
                    if c2 is not None:
                        c2.send(M.DataMessage(M.DATA_BLOCK, blk))
                        honest_pending.append(('block', blk))
                    if not settle_all('after the block that ends the bulk download'):
                        break
                    if unflushed:
                        res.bump('bulk_download_left_open')
                        break
            elif kind == 'honest_tx':
                if honest_pending:
                    if not settle_all('before transaction'):
                        break
                hb = chain.head()
                taken = set()
                for t in expected_pool:
                    taken |= {(i.output_reference.hash, i.output_reference.index) for i in t.inputs}
                txs, _, _ = sim.build_txs(hb, [op.get('spec', {})], taken)
                if not txs:
                    continue
                c = w.conn(op.get('peer', 0))
                c.send(M.DataMessage(M.DATA_TRANSACTION, txs[0]))
                honest_pending.append(('tx', txs[0]))
                dirty = True
            else:
                do_adv(op)
                dirty = True
            if not op.get('overlap'):
                if not settle_all('after %s' % (op.get('kind') or kind)):
                    break
                dirty = False
        if dirty and not res.violations:
            settle_all('at the end')
        if not res.violations and expected_ids != set(sim.stored):
            pass
    finally:
        w.close()
    res.digest = w.trace.digest()
    return res


def describe():
    return {
        'rule': 'one run = one seeded script mixing honest traffic with adversarial items against one real node; distinct = '
                '(adversarial kind x base); non-trivial = at least one adversarial item delivered and judged',
        'components': {'real': ['LocalPeer event loop incl. its catch-all and disconnect', 'MessageReceiver, all message codecs and datatypes decoders',
                                'ConnectedRemotePeer handlers', 'ChainManager / NetworkManager', 'BlockStore (real SQLite)'],
                       'stub': ['TCP, selector, clock, randomness', 'Bots (honest and adversarial)', 'scrypt stand-in']},
        'assumptions': ['frames <= 64 KiB', 'the adversary never sends a fully valid new block or transaction'],
        'expected_probes': ['probe:malformed_input_during_bulk_download', 'honest_blocks', 'honest_transactions'] + ['adv:' + k for k in ADV],
    }
