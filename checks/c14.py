"""C14 — wallet builds exact, valid, non-overlapping spends, or reports insufficient funds and changes nothing."""
from simkit.core import Streams, Result, Trace
from seams import env
from checks import ledger_common as LC

PROP = 'C14'
LEVEL = 'exploration'
BUDGET = {
    'quick': {'runs': 1600, 'wall': 150, 'chunk': 10},
    'thorough': {'runs': 60000, 'wall': 1500, 'chunk': 50},
}
MANIFEST = {
    'engine': 'ledger-sim + wallet',
    'level': 'exploration',
    'text': 'Seeded histories: blocks pay seeded distributions of outputs to wallet and foreign keys; then sequences of '
            'create_spend_transaction with amount+fee below, exactly at (one output / everything) and above the spendable '
            'total, interleaved with mining some produced transactions, leaving others pending, and reorganising so that a '
            'confirmed spend becomes unconfirmed again. Each success is judged by the independent transaction rules at the '
            'head, by exact output/change arithmetic and by a reference record of used outputs; each refusal must be '
            'truthful and leave the used-output record unchanged (witnessed by a following affordable spend).',
    'note': 'Trusted: reference ledger/rules, own record of used outputs; ECDSA nonces seeded (real curve maths). '
            'Wallets with more than ~40 outputs (size limit of one transaction) are out of bounds.',
}


def generate(seed, tier):
    rng = Streams(seed).get('gen')
    n_build = rng.randint(2, 8)
    build = []
    for i in range(n_build):
        m = LC.gen_mine(rng, latest_bias=0.9, max_txs=3)
        m['clock'] = 0
        m['via'] = 'memory'
        build.append(m)
    ops = []
    n = rng.randint(4, 14 if tier == 'quick' else 30)
    for i in range(n):
        x = rng.random()
        if x < 0.55:
            cls = rng.choice(['small', 'small', 'tiny', 'one_output', 'all', 'all_minus_1', 'all_plus_1', 'huge', 'half'])
            ops.append({'op': 'spend', 'amount': cls, 'fee': rng.choice([0, 0, 1, 1000, rng.randrange(10 ** 9)]),
                        'to': rng.randrange(12), 'change': rng.randrange(12), 'pick': rng.randrange(1000)})
            if cls in ('all_plus_1', 'huge') and rng.random() < 0.7:
                ops.append({'op': 'spend', 'amount': rng.choice(['small', 'tiny', 'one_output']), 'fee': 0,
                            'to': rng.randrange(12), 'change': rng.randrange(12), 'pick': rng.randrange(1000)})
        elif x < 0.75:
            ops.append({'op': 'mine_pending', 'mask': rng.getrandbits(8), 'miner': rng.randrange(12), 'dt': rng.randrange(1, 600)})
        elif x < 0.9:
            ops.append({'op': 'mine_plain', 'miner': rng.randrange(12), 'dt': rng.randrange(1, 600)})
        else:
            ops.append({'op': 'reorg', 'depth': rng.choice([1, 1, 2]), 'miner': rng.randrange(12)})
    return {'config': {'base': 'hreal', 'hard': False, 'build': build, 'wallet_keys': rng.randrange(1, 1 << 12) | 1 << rng.randrange(12)},
            'ops': ops}


def execute(script):
    env.setup()
    env.use_fast_scrypt(True)
    from seams import entropy
    from engines.ledger import LedgerSim
    from refmodel import rules
    from world import ledger as W
    import skepticoin.consensus as consensus
    from skepticoin.wallet import Wallet, create_spend_transaction
    res = Result()
    trace = Trace()
    cfg = script['config']
    entropy.install(script.get('seed', 0))
    try:
        sim = LedgerSim(cfg, PROP, res, trace)
        sim.run(cfg['build'])
        if sim.dead:
            res.digest = trace.digest()
            return res
        wk = [W.key(i) for i in range(12) if cfg.get('wallet_keys', 1) >> i & 1]
        wallet = Wallet({k.pub: k.priv for k in wk}, [k.pub for k in wk], {})
        wpubs = {k.pub for k in wk}
        used = set()          # RefWallet.used
        pending = []          # transactions produced and not (yet) mined

        def spendable():
            head = sim.chain.blocks[sim.cs.current_chain_hash]
            return head, sorted((ref, v) for ref, (v, pub) in head.utxo.items() if pub in wpubs and ref not in used)

        for op in script['ops']:
            if res.violations or sim.dead:
                break
            res.events += 1
            if op['op'] == 'spend':
                head, sp = spendable()
                total = sum(v for _, v in sp)
                fee = op.get('fee', 0)
                cls = op['amount']
                if cls == 'small':
                    amount = max(1, total // (3 + op.get('pick', 0) % 7))
                elif cls == 'tiny':
                    amount = 1
                elif cls == 'half':
                    amount = max(1, total // 2)
                elif cls == 'one_output':
                    amount = sp[op.get('pick', 0) % len(sp)][1] if sp else 5
                    fee = 0
                elif cls == 'all':
                    amount = total - fee
                elif cls == 'all_minus_1':
                    amount = total - fee - 1
                elif cls == 'all_plus_1':
                    amount = total - fee + 1
                else:
                    amount = total * 3 + 10 ** 12
                if amount <= 0:
                    amount = 1
                if len(sp) > 40:
                    res.bump('out_of_bounds_wallet_too_large')
                    continue
                before = set(wallet.spent_transaction_outputs)
                to_k, ch_k = W.key(op.get('to', 0) % 12), W.key(op.get('change', 0) % 12)
                try:
                    tx = create_spend_transaction(wallet, sim.cs, amount, fee, to_k.pk, ch_k.pk)
                    err = None
                except Exception as e:
                    tx = None
                    err = e
                after = set(wallet.spent_transaction_outputs)
                trace.add('spend', cls, amount, fee, 'ok' if tx is not None else type(err).__name__)
                res.distinct.add('spend:%s:%s:%d' % (cls, 'ok' if tx is not None else 'refused', min(len(sp), 9)))
                if tx is None:
                    if str(err) != 'Insufficient balance':
                        res.violate(PROP, 'C14/spend-raised-unexpected-error', '%s: %s' % (type(err).__name__, err))
                        break
                    res.bump('refused')
                    if total >= amount + fee:
                        res.violate(PROP, 'C14/refused-although-affordable',
                                    'insufficient funds reported but %d spendable >= %d + %d' % (total, amount, fee))
                        break
                    if before != after:
                        res.violate(PROP, 'C14/failed-spend-changed-used-record',
                                    'a refused spend marked %d outputs as used; a later affordable spend will fail' % (
                                        len(after - before)))
                        break
                    continue
                res.bump('spent')
                if total < amount + fee:
                    # cannot be valid then; caught below by the value rule, but name it
                    res.bump('probe:spend_succeeded_above_balance')
                broken, got_fee = rules.judge_transaction(tx, head.utxo, sim.sig_cache)
                if broken:
                    res.violate(PROP, 'C14/spend-not-valid-at-head', 'returned transaction breaks %s' % broken)
                    break
                try:
                    consensus.validate_non_coinbase_transaction_by_itself(tx)
                    consensus.validate_non_coinbase_transaction_in_coinstate(tx, sim.cs.current_chain_hash, sim.cs)
                except Exception as e:
                    res.violate(PROP, 'C14/spend-not-valid-at-head', 'node validator rejects it: %s' % e)
                    break
                refs = [(i.output_reference.hash, i.output_reference.index) for i in tx.inputs]
                spd = dict(sp)
                bad = [r for r in refs if r not in spd]
                if bad:
                    why = 'used by an earlier spend' if any(r in used for r in bad) else 'not an unspent output of a wallet key'
                    res.violate(PROP, 'C14/spend-uses-forbidden-output', 'input %s' % why)
                    break
                tin = sum(spd[r] for r in refs)
                o = tx.outputs
                if not (o[0].value == amount and o[0].public_key.public_key == to_k.pub):
                    res.violate(PROP, 'C14/wrong-payment-output', 'first output is not (amount, recipient)')
                    break
                change = tin - amount - fee
                if change < 0:
                    res.violate(PROP, 'C14/wrong-change', 'inputs %d < amount %d + fee %d' % (tin, amount, fee))
                    break
                if change == 0:
                    res.bump('probe:exact_spend_no_change')
                    if len(o) != 1:
                        res.violate(PROP, 'C14/wrong-change', 'change output present although change is zero')
                        break
                else:
                    if len(o) != 2 or o[1].value != change or o[1].public_key.public_key != ch_k.pub:
                        res.violate(PROP, 'C14/wrong-change', 'expected change %d to the change key, outputs are %s' % (
                            change, [(x.value, x.public_key.public_key.hex()[:6]) for x in o[1:]]))
                        break
                used.update(refs)
                pending.append(tx)
            elif op['op'] == 'mine_pending':
                head = sim.chain.blocks[sim.cs.current_chain_hash]
                chosen = []
                taken = set()
                for n, tx in enumerate(pending):
                    if not (op.get('mask', 255) >> (n % 8) & 1):
                        continue
                    refs = [(i.output_reference.hash, i.output_reference.index) for i in tx.inputs]
                    if all(r in head.utxo for r in refs) and not (set(refs) & taken):
                        chosen.append(tx)
                        taken.update(refs)
                view = W.view_at(sim.cs, head.id)
                blk = W.mine_honest(view, chosen, W.key(op.get('miner', 0) % 12), head.ts + max(1, op.get('dt', 1)))
                bid = sim.deliver(blk, blk.header.summary.timestamp, 'honest', {'kind': 'mine_pending'})
                if bid is None:
                    res.violate(PROP, 'C14/spend-not-minable', 'a block containing wallet spends was rejected')
                    break
                pending = [t for t in pending if t not in chosen]
                if chosen:
                    res.bump('probe:wallet_spend_confirmed')
            elif op['op'] == 'mine_plain':
                sim.op_mine({'op': 'mine', 'tip': len(sim.stored) - 1 if False else -1, 'txs': [], 'miner': op.get('miner', 0),
                             'dt': op.get('dt', 1), 'clock': 0})
            elif op['op'] == 'reorg':
                # build a longer side chain from an ancestor of the head: confirmed spends become unconfirmed again
                head = sim.chain.blocks[sim.cs.current_chain_hash]
                anc = head
                for _ in range(op.get('depth', 1)):
                    if anc.parent is not None:
                        anc = anc.parent
                idx = sim.stored.index(anc.id)
                need = head.height - anc.height + 1
                tip = idx
                for j in range(need):
                    n0 = len(sim.stored)
                    sim.op_mine({'op': 'mine', 'tip': tip, 'txs': [], 'miner': op.get('miner', 0) + j, 'dt': 7 + j, 'clock': 0})
                    if len(sim.stored) == n0:
                        break
                    tip = len(sim.stored) - 1
                if sim.cs.current_chain_hash != head.id:
                    res.bump('probe:reorg_unconfirmed_history')
    finally:
        entropy.uninstall()
    res.digest = trace.digest()
    return res


def describe():
    return {
        'rule': 'one run = one seeded history + 4-30 wallet operations; distinct = (amount class, outcome, number of '
                'spendable outputs capped at 9); non-trivial = at least one spend attempted against a funded wallet',
        'components': {'real': ['skepticoin.wallet (create_spend_transaction, sign_transaction, Wallet)', 'skepticoin.consensus validators',
                                'skepticoin.coinstate / balances (per-key balances the wallet reads)'],
                       'stub': ['ECDSA nonce entropy seeded', 'scrypt stand-in', 'hollow base']},
        'assumptions': ['amount > 0 and fee >= 0 as the statement requires', 'wallets of at most 40 spendable outputs'],
        'expected_probes': ['spent', 'refused', 'probe:exact_spend_no_change', 'probe:wallet_spend_confirmed',
                            'probe:reorg_unconfirmed_history'],
    }
