"""C09 — relay path: only fully valid blocks enter state; rejected ones leave no trace (real store attached)."""
from simkit.core import Streams, Result
from seams import env
from checks import ledger_common as LC

PROP = 'C09'
LEVEL = 'exploration'
BUDGET = {
    'quick': {'runs': 1500, 'wall': 170, 'chunk': 6},
    'thorough': {'runs': 30000, 'wall': 1700, 'chunk': 10},
}
MANIFEST = {
    'engine': 'node-sim (1 real node, real store)',
    'level': 'exploration',
    'text': 'One real LocalPeer with both managers, the real DiskInterface and a real SQLite BlockStore, 2-4 scripted greeted '
            'peers on the simulated network. Seeded scripts of 15-60 deliveries outside bulk download: valid blocks on any '
            'fork (becoming head, tying, losing), exact duplicates from the same and other peers, orphans (parent withheld, '
            'delivered later), ~60 forgery kinds including blocks that pass the by-itself checks and fail while being '
            'applied, pending transactions in between; deliveries fragmented and optionally overlapped across peers; '
            'validator clock within +-31 s of block times; node restarts from its store. After every settle: chain-state '
            'membership vs. an independent verdict, store rows vs. accepted ids, relay count per peer and block, pool and '
            'state unchanged by rejections, later blocks still stored, no exception out of the event loop.'
            " Bulk-download deliveries (in_response_to != 0) are generated as context in part of the runs: unvalidated installs that are only buffered, the node's fall-back to its last validated state followed as an event, dropped blocks delivered again by either route, restarts with buffered blocks, repeats by both routes; the node's reported tips are compared with the stored blocks without stored children after every settle."
            " Further context and races: a slow peer whose answer to the node's own request arrives after the block was stored by another route; bulk-download bursts of up to 120 (thorough: 1001) requested blocks; the node's other thread flushing the store inside the validation of a relayed block (what it makes durable is followed by the reference)."
            " Part of the worlds start with a freshly installed node (genesis only: its last validated state is the empty chain) whose first blocks arrive by bulk download, started over after every fall-back to the empty chain. Every install is judged with the node's clock of that moment, fractions of a second included (relayed blocks dated clock+30 and clock+31); valid blocks are also pushed as 'responses' nobody asked for; half of the restarts are preceded by an orderly shutdown.",
    'note': 'Trusted: reference rules/fork choice, Bot endpoints (repo codecs as tools), simulated TCP/selector/clock; '
            'arrival order of overlapped deliveries is taken from the order in which the node installed them.',
}

APPLY_TIME = ['spend_missing', 'spend_spent', 'spend_other_fork', 'dup_ref_in_block']


def generate(seed, tier):
    from engines import forgeries as F
    rng = Streams(seed).get('gen')
    base = 'hreal' if rng.random() < 0.65 else 'hlow_easy'
    build = [LC.gen_mine(rng, latest_bias=0.8, max_txs=2) for _ in range(rng.randint(2, 5))]
    for m in build:
        m['clock'] = 0
        m['via'] = 'memory'
    n = rng.randint(10, 30 if tier == 'quick' else 60)
    kinds = [k for k in F.ALL if k != 'unknown_parent']
    ops = []
    # bulk-download deliveries (in_response_to != 0) as CONTEXT: they are installed unvalidated and only buffered, so a
    # rejected relay afterwards rolls the node back; what C09 says about relayed blocks has to hold around that too
    bulk_rate = rng.choice([0.0, 0.0, 0.12, 0.3])
    for _ in range(n):
        x = rng.random()
        peer = rng.randrange(4)
        if bulk_rate and rng.random() < bulk_rate:
            y = rng.random()
            if y < 0.08:
                # a longer stretch of bulk download (one announcement, many requests), usually followed by a rejected relay
                ops.append({'op': 'bulk_burst', 'n': rng.choice([3, 20, 99, 100, 101, 120] + ([500, 1001] if tier == 'thorough' else [])),
                            'peer': peer, 'miner': rng.randrange(12)})
                if rng.random() < 0.8:
                    ops.append({'op': 'forge', 'kind': rng.choice(['reward_plus_one', 'sig_other_key', 'ts_equal_parent', 'ev_sample']), 'tip': -1,
                                'a': rng.randrange(1000), 'b': rng.randrange(1000), 'dt': 1, 'clock': 0, 'peer': rng.randrange(4), 'overlap': False})
            elif y < 0.6:
                m = LC.gen_mine(rng, latest_bias=0.85, max_txs=2)
                m.update({'op': 'bulk', 'peer': peer, 'clock': 0})
                ops.append(m)
            elif y < 0.68:
                ops.append({'op': 'dup', 'n': rng.randrange(1000), 'peer': peer, 'route': 'bulk'})
            elif y < 0.74:
                m = LC.gen_mine(rng, latest_bias=0.85, max_txs=0)
                m.update({'op': 'requested_late', 'peer': peer, 'clock': 0})
                ops.append(m)
            elif y < 0.84:
                ops.append({'op': 'redeliver_dropped', 'n': rng.randrange(1000), 'peer': peer, 'route': rng.choice(['relay', 'bulk'])})
            else:
                ops.append({'op': 'forge', 'kind': rng.choice(APPLY_TIME + ['reward_plus_one', 'sig_other_key']), 'tip': -1,
                            'a': rng.randrange(1000), 'b': rng.randrange(1000), 'dt': 1, 'clock': 0, 'peer': peer, 'overlap': False})
            continue
        if x < 0.38:
            m = LC.gen_mine(rng, latest_bias=0.55, max_txs=3)
            m.update({'op': 'relay', 'peer': peer, 'overlap': rng.random() < 0.2,
                      'clock': rng.choice([0, 0, -25, 5, 100]),
                      'future': rng.choice([None] * 8 + [20, 28, 30, 31, 31, 37, 45]),
                      # a valid block pushed as a "response" nobody asked for: to be treated like any unsolicited block
                      'route': 'unrequested' if rng.random() < 0.1 else 'relay'})
            ops.append(m)
        elif x < 0.5:
            ops.append({'op': 'dup', 'n': rng.randrange(1000), 'peer': peer})
        elif x < 0.58:
            m = LC.gen_mine(rng, latest_bias=0.7, max_txs=1)
            m.update({'op': 'orphan', 'peer': peer, 'peer2': rng.randrange(4), 'clock': 0})
            ops.append(m)
        elif x < 0.88:
            kind = rng.choice(APPLY_TIME) if rng.random() < 0.3 else rng.choice(kinds)
            ops.append({'op': 'forge', 'kind': kind, 'tip': -1 if rng.random() < 0.6 else rng.randrange(1000),
                        'a': rng.randrange(1000), 'b': rng.randrange(1000), 'dt': rng.choice([1, 60, 600]),
                        'clock': 0, 'peer': peer, 'overlap': rng.random() < 0.15})
            if rng.random() < 0.12:
                ops[-1].update({'flush_during_validation': True, 'overlap': False})
        elif x < 0.91:
            m = LC.gen_mine(rng, latest_bias=0.7, max_txs=2)
            m.update({'op': 'corrupt_then_valid', 'peer': peer, 'peer2': rng.randrange(4), 'clock': 0, 'a': rng.randrange(100000)})
            ops.append(m)
        elif x < 0.96:
            ops.append({'op': 'submit_tx', 'spec': LC.gen_tx_spec(rng), 'peer': peer})
        else:
            ops.append({'op': 'restart', 'graceful': rng.random() < 0.5})
    return {'config': {'base': base, 'build': build, 'bots': rng.randint(2, 4),
                       'skew_ms': rng.choice([0, 0, 3000, -3000, 20000]),
                       # a freshly installed node: genesis only, its last validated state is the empty chain; the world's first
                       # blocks arrive by bulk download
                       'from_genesis': base == 'hlow_easy' and rng.random() < 0.3,
                       'file_store': base == 'hlow_easy'}, 'ops': ops}


def execute(script):
    env.setup()
    from engines.nodesim import NodeWorld
    from engines import forgeries
    from engines.ledger import cheap_fp
    from refmodel import rules
    from refmodel.rules import judge_block
    from world import ledger as W
    import skepticoin.consensus as consensus
    from skepticoin.networking import messages as M
    from skepticoin.scripts.utils import read_chain_from_disk
    import skepticoin.blockstore as bs

    res = Result()
    cfg = script['config']
    w = NodeWorld(script, PROP, res, n_bots=cfg.get('bots', 3), file_store=cfg.get('file_store', False))
    try:
        sim = w.sim
        chain = sim.chain
        node = w.node
        if sim.dead or node.loop_error:
            return res
        initial_ids = set(sim.stored)
        accepted = set(initial_ids)          # ids that should be in state and store
        rejected = set()                     # ids of candidates that must never appear
        delivered_valid = []                 # blocks accepted earlier (for duplicates)
        installs = []                        # ids in the order the node installed them
        install_validated = {}               # id -> the 'validated' flag the node passed when installing it
        install_time = {}                    # id -> the node's clock at that moment (validation was earlier, never later)
        unflushed = set()                    # installed unvalidated (bulk route) since the last validated install: only buffered
        dropped = []                         # blocks the node dropped again by rolling back (may be delivered again)
        cs_valid = {'cs': sim.cs}            # the shadow state as of the last moment nothing was unflushed
        race_flushed = set()                 # unvalidated blocks that the node's other thread flushed while they were only buffered

        def hook_installs():
            cm = w.cm
            orig = cm.set_coinstate
            state = {'prev': cm.coinstate}

            def wrapped(coinstate, validated=True):
                prev = state['prev']
                if len(coinstate.block_by_hash) > len(prev.block_by_hash):
                    for h in coinstate.heads.keys():
                        if h not in prev.block_by_hash:
                            installs.append(h)
                            install_validated[h] = validated
                            install_time[h] = node.clock_s()      # the node's clock (fractions included) when it installed the block
                elif len(coinstate.block_by_hash) < len(prev.block_by_hash):
                    # the node falls back to an earlier state
                    installs.append(('rollback', frozenset(set(prev.block_by_hash.keys()) - set(coinstate.block_by_hash.keys()))))
                state['prev'] = coinstate
                return orig(coinstate, validated)
            cm.set_coinstate = wrapped
        hook_installs()

        mark = {'inst0': 0}
        batch = []      # candidates sent since the last settle: dict(block, bid, verdict..., )

        def model_drop(ids, why):
            nonlocal delivered_valid
            for bid in sorted(ids, key=lambda b_: -chain.blocks[b_].height):
                rb_ = chain.blocks.pop(bid)
                chain.order.remove(bid)
                if rb_.parent is not None:
                    rb_.parent.children -= 1
                accepted.discard(bid)
                sim.stored.remove(bid)
                dropped.append(sim.block_objs[bid])
            delivered_valid = [b_ for b_ in delivered_valid if rules.block_id(b_) in accepted]
            sim.cs = cs_valid['cs']
            unflushed.clear()
            res.bump(why)

        def send_block(block, peer, label, expect, route='relay'):
            c = w.conn(peer)
            if c is None:
                res.bump('no_connection_for_delivery')
                if not batch:
                    mark['inst0'] = len(installs)
                batch.append({'block': block, 'bid': rules.block_id(block), 'label': label + ':not-sent', 'expect': 'free',
                              't_send': w.node_clock(), 'conn': None, 'parent_settled': False, 'counts_before': {},
                              'greeted_before': []})
                return
            bid = rules.block_id(block)
            t_send = w.node_clock()
            if not batch:
                mark['inst0'] = len(installs)
            batch.append({'block': block, 'bid': bid, 'label': label, 'expect': expect, 't_send': t_send, 'route': route,
                          'known_at_send': bid in accepted,
                          'conn': c, 'parent_settled': block.header.summary.previous_block_hash in accepted,
                          'counts_before': {k: v[0] for k, v in w.count_block_messages(bid).items()},
                          'greeted_before': [id(x) for x in w.greeted_bot_conns()]})
            if route == 'bulk':
                c.offer_block(block)            # announce, be asked, serve
            elif route == 'unrequested':
                c.send(M.DataMessage(M.DATA_BLOCK, block), in_response_to=7)
            else:
                c.send(M.DataMessage(M.DATA_BLOCK, block))
            w.trace.add(w.k.now, 'send', label, bid)

        def evidence_tool(block):
            view = W.view_at(sim.cs, block.header.summary.previous_block_hash)
            return consensus.construct_pow_evidence(view, block.header.summary, block.header.summary.height,
                                                    block.transactions)

        def settle_and_check():
            nonlocal batch
            if not batch:
                return True
            pool_before = batch[0].get('pool_before')
            n_inst0 = mark['inst0']
            w.settle(3000 + 500 * len(batch))
            t_end = w.node_clock() + 1
            if node.loop_error:
                res.violate(PROP, 'C09/exception-left-event-loop', '%s: %s' % node.loop_error[:2])
                return False
            by_id = {}
            for cand in batch:
                by_id.setdefault(cand['bid'], cand)
            new_installs = installs[n_inst0:]
            any_accept = False
            # the node's own processing order decides arrival order for the reference
            rolled_back = False
            dropped_now = set()
            for bid in new_installs:
                if isinstance(bid, tuple):
                    dropped_now |= set(unflushed) & bid[1]
                    # a rejected relay made the node fall back to its last validated state: the blocks installed unvalidated
                    # since then are gone again - by design of the bulk-download path (anything else that went missing with
                    # them is reported by the membership comparison below)
                    drop = set(unflushed) & bid[1]
                    if drop:
                        model_drop(drop, 'probe:rollback_to_last_validated_state')
                        rolled_back = True
                    continue
                cand = by_id.get(bid)
                if cand is None:
                    res.violate(PROP, 'C09/unknown-block-in-state', 'node installed a block nobody delivered: %s' % bid.hex()[:12])
                    return False
                blk = cand['block']
                # judged with the clock of the moment of installation, fractions of a second included: a block dated more than 30 s
                # ahead of that was more than 30 s ahead of the validator's clock when it was validated
                late = judge_block(chain, blk, install_time.get(bid, t_end), evidence_tool, consensus.calc_merkle_root_hash, sim.sig_cache)
                if late and cand.get('trusted_history'):
                    late = []       # the world's block 1 (states the trivial target): trusted history, delivered by bulk download only
                if late:
                    res.violate(PROP, 'C09/invalid-block-entered-state',
                                'delivered block (%s) entered chain state although: %s' % (cand['label'], late),
                                {'rules': [list(x) for x in late]})
                    return False
                if bid not in chain.blocks:
                    sim.cs = sim.cs.add_block_no_validation(blk)
                    chain.add(blk)
                    sim.stored.append(bid)
                    sim.block_objs[bid] = blk
                    accepted.add(bid)
                    rejected.discard(bid)
                    delivered_valid.append(blk)
                    cand['became_head'] = chain.head().id == bid
                    cand['installed'] = True
                    any_accept = True
                    if cand.get('route') == 'bulk' and not install_validated.get(bid, True):
                        unflushed.add(bid)
                        res.bump('probe:bulk_block_installed_unvalidated')
                        continue
                    unflushed.clear()              # a validated install flushes everything buffered
                    cs_valid['cs'] = sim.cs        # ... and is the state a later fall-back returns to
                    res.bump('accepted_relays')
                    if cand['became_head']:
                        res.bump('probe:relay_became_head')
                    else:
                        res.bump('probe:relay_on_side_chain')
            node_ids = w.node_ids()
            for cand in batch:
                bid = cand['bid']
                blk = cand['block']
                if cand.get('installed'):
                    continue
                if bid in accepted or cand.get('known_at_send'):
                    # a repeat; (if a rollback in this batch dropped the block, whether the repeat was handled before or
                    # after it decides if the block is back - both orders are legitimate)
                    cand['repeat'] = True
                    if bid not in accepted and bid in node_ids:
                        res.violate(PROP, 'C09/invalid-block-entered-state', 'block in state without an install: %s' % cand['label'])
                        return False
                    continue
                early = judge_block(chain, blk, cand['t_send'], evidence_tool, consensus.calc_merkle_root_hash, sim.sig_cache)
                if bid in node_ids:
                    res.violate(PROP, 'C09/invalid-block-entered-state', 'block in state without an install: %s' % cand['label'])
                    return False
                conn_lost = cand['conn'] is None or cand['conn'].closed
                if conn_lost:
                    res.bump('probe:delivery_lost_with_its_connection')
                if not early and cand['parent_settled'] and cand['expect'] not in ('forgery', 'context') and not conn_lost \
                        and blk.header.summary.previous_block_hash in accepted \
                        and blk.header.summary.previous_block_hash not in dropped_now:
                    # (a parent that a fall-back dropped during this batch may have been away when the block arrived, even if a
                    # repeat brought it back afterwards)
                    res.violate(PROP, 'C09/valid-block-not-accepted',
                                'a valid block on a known parent, delivered outside bulk download, is not in chain state (%s)' % cand['label'])
                    return False
                if early and not cand.get('trusted_history'):
                    rejected.add(bid)      # only what the rules forbid must never show up later
                    cand['rejected_now'] = True
                res.bump('rejected_relays')
            # (1b) membership.  A rejected relay may make the node fall back to its last validated state: the blocks installed
            #      unvalidated since then (all of them, nothing else) are gone again - by design of the bulk-download path
            if node_ids != accepted:
                extra = node_ids - accepted
                missing = accepted - node_ids
                res.violate(PROP, 'C09/state-membership-differs',
                            'chain state has %d unexpected and lacks %d expected blocks' % (len(extra), len(missing)))
                return False
            if w.cm.coinstate.current_chain_hash != chain.head().id:
                res.violate(PROP, 'C09/head-differs', 'node head is not the first-seen block of greatest height')
                return False
            if set(w.cm.coinstate.heads.keys()) != chain.tips():
                # (a repeated delivery "has no effect": in particular a stored block with stored children is not a tip again)
                res.violate(PROP, 'C09/tips-differ', 'the node reports %d tips, %d stored blocks have no stored child' % (
                    len(w.cm.coinstate.heads), len(chain.tips())))
                return False
            # (2) store rows
            rows = w.store_ids()
            if rows & rejected:
                res.violate(PROP, 'C09/rejected-block-in-store', 'a rejected block was written to the block store')
                return False
            if not (accepted - unflushed <= rows <= accepted | race_flushed):
                res.violate(PROP, 'C09/store-differs-from-accepted',
                            'store has %d rows, %d blocks accepted so far (missing %d, extra %d)' % (
                                len(rows), len(accepted), len(accepted - rows), len(rows - accepted)))
                return False
            # (3) relay exactly once iff new head; never on a repeat
            for cand in batch:
                bid = cand['bid']
                after = w.count_block_messages(bid)
                for key, (n, c) in after.items():
                    if id(c) not in cand['greeted_before'] or c.closed:
                        continue
                    delta = n - cand['counts_before'].get(key, 0)
                    want = 1 if (cand.get('installed') and cand.get('became_head') and cand.get('route') not in ('bulk', 'unrequested')) else 0
                    others = [x for x in batch if x is not cand and x['bid'] == bid]
                    if others:
                        continue    # same block twice in one batch: judged on the total below
                    if delta != want:
                        res.violate(PROP, 'C09/relay-count-wrong',
                                    'block %s (%s): relayed %d times to a greeted peer, expected %d' % (
                                        bid.hex()[:12], cand['label'], delta, want))
                        return False
            for bid in {c['bid'] for c in batch}:
                same = [c for c in batch if c['bid'] == bid]
                if len(same) > 1:
                    after = w.count_block_messages(bid)
                    want = 1 if any(c.get('installed') and c.get('became_head') and c.get('route') not in ('bulk', 'unrequested') for c in same) else 0
                    for key, (n, c) in after.items():
                        if id(c) not in same[0]['greeted_before'] or c.closed:
                            continue
                        delta = n - same[0]['counts_before'].get(key, 0)
                        if delta != want:
                            res.violate(PROP, 'C09/relay-count-wrong', 'block delivered %d times in one batch relayed %d times, expected %d' % (
                                len(same), delta, want))
                            return False
            # (4) rejections leave pool and state as they were
            if not any_accept and pool_before is not None and not rolled_back:
                if w.pool_ids() != pool_before:
                    res.violate(PROP, 'C09/pool-changed-by-rejected-block', 'pending pool changed although every delivery was rejected')
                    return False
            batch = []
            if not unflushed:
                cs_valid['cs'] = sim.cs
            return True

        syncs = [0]

        def first_synchronisation():
            # (the world's block 1 is trusted history that full validation would refuse; a node may validate what it likes - it
            #  does when an older announcement of the same block by the same peer is still on its books - so each attempt uses
            #  another peer, and a block 1 that is not taken is not an error)
            todo = sorted((b_ for b_ in dropped if rules.block_id(b_) not in accepted), key=lambda b_: b_.height)
            syncs[0] += 1
            for b_ in todo:
                if b_.header.summary.previous_block_hash not in accepted:
                    continue
                send_block(b_, syncs[0] - 1, 'first-synchronisation', 'context', route='bulk')
                batch[-1]['pool_before'] = None
                batch[-1]['trusted_history'] = b_.height == 1 and rules.block_id(b_) == rules.block_id(W._EASY['b'])
                if not settle_and_check():
                    return False
            res.bump('probe:first_synchronisation_from_genesis')
            return True

        from_genesis = bool(cfg.get('from_genesis'))
        if from_genesis:
            genesis_id = sim.stored[0]
            cs_valid['cs'] = sim.cs_genesis
            model_drop(set(initial_ids) - {genesis_id}, 'probe:node_starts_from_genesis_only')
            initial_ids = {genesis_id}
            first_synchronisation()

        for op in script['ops']:
            if res.violations or node.loop_error:
                break
            kind = op['op']
            if from_genesis and len(chain.blocks) == 1 and not batch and kind != 'restart':
                # fallen back to the empty chain (nothing can be mined on the real genesis target here): the download starts over
                if not first_synchronisation():
                    break
            if not batch:
                pool_now = w.pool_ids()
            if kind in ('relay', 'orphan'):
                rb = sim.parent_of(op.get('tip', -1))
                txs, fees, _ = sim.build_txs(rb, op.get('txs', []))
                ts = rb.ts + max(1, op.get('dt', 60))
                fut = op.get('future') if kind == 'relay' else None
                if fut is not None and w.node_clock() + fut > rb.ts:
                    # dated relative to the validator's clock: up to +30 s must be accepted, beyond it rejected
                    # (28 and 37 leave room for the few seconds a delivery takes)
                    ts = w.node_clock() + fut
                    res.bump('probe:block_dated_ahead_of_clock:%s' % ('valid' if fut <= 30 else 'too_far'))
                elif ts > w.node_clock() + 20:
                    ts = rb.ts + 1
                    if ts > w.node_clock() + 20:
                        res.bump('skipped_future_chain')
                        continue
                view = W.view_at(sim.cs, rb.id)
                blk = W.roundtrip(W.mine_honest(view, txs, W.key(op.get('miner', 0) % 12), ts))
                if rules.block_id(blk) in accepted:
                    continue
                if kind == 'relay':
                    send_block(blk, op.get('peer', 0), 'honest' if fut is None else 'dated clock%+d' % fut,
                               'honest' if (fut is None or fut <= 30) else 'free', route=op.get('route', 'relay'))
                    if op.get('route') == 'unrequested':
                        res.bump('probe:valid_block_pushed_as_unrequested_response')
                    batch[-1]['pool_before'] = pool_now
                    if not op.get('overlap'):
                        if not settle_and_check():
                            break
                else:
                    # child of blk delivered before blk itself: dropped; then parent, then the child again
                    tmp_cs = sim.cs.add_block_no_validation(blk)
                    child = W.roundtrip(W.mine_honest(tmp_cs if tmp_cs.current_chain_hash == rules.block_id(blk)
                                                      else W.view_at(tmp_cs, rules.block_id(blk)), [], W.key(3), ts + 1))
                    if not settle_and_check():
                        break
                    send_block(child, op.get('peer', 0), 'orphan-child-first', 'free')
                    batch[-1]['pool_before'] = w.pool_ids()
                    batch[-1]['parent_settled'] = False
                    if not settle_and_check():
                        break
                    if rules.block_id(child) in w.node_ids():
                        break
                    res.bump('probe:orphan_dropped')
                    rejected.discard(rules.block_id(child))
                    send_block(blk, op.get('peer2', 1), 'orphan-parent', 'honest')
                    if not settle_and_check():
                        break
                    send_block(child, op.get('peer', 0), 'orphan-child-again', 'honest')
                    if not settle_and_check():
                        break
            elif kind == 'corrupt_then_valid':
                # a copy of a valid block with its header intact and its body damaged (same id) arrives first; the intact
                # block from another peer must then be accepted, stored and relayed as usual
                if not settle_and_check():
                    break
                rb = sim.parent_of(op.get('tip', -1))
                txs, _, _ = sim.build_txs(rb, op.get('txs', []) or [{'ins': [op.get('a', 0)], 'outs': [[1, 1]], 'fee_ppm': 0}])
                ts = rb.ts + max(1, op.get('dt', 60))
                if ts > w.node_clock() + 20:
                    ts = rb.ts + 1
                    if ts > w.node_clock() + 20:
                        continue
                blk = W.roundtrip(W.mine_honest(W.view_at(sim.cs, rb.id), txs, W.key(op.get('miner', 0) % 12), ts))
                if rules.block_id(blk) in accepted:
                    continue
                raw = bytearray(blk.serialize())
                hl = len(blk.header.serialize())
                pos = hl + 1 + op.get('a', 0) % (len(raw) - hl - 1)
                raw[pos] ^= 1 << (op.get('a', 0) % 8)
                c = w.conn(op.get('peer', 0))
                if c is None:
                    continue
                import struct as _st
                from seams.bots import MAGIC as _MG
                hd = M.MessageHeader(w.node_clock(), 77, 0, 5).serialize()
                data = hd + b'\x00\x04\x00' + M.DATA_BLOCK + bytes(raw)
                c.send_raw(_MG + _st.pack('>I', len(data)) + data)
                w.settle(2500)
                res.bump('probe:damaged_copy_delivered_first')
                if node.loop_error:
                    break
                if rules.block_id(blk) in w.node_ids():
                    res.violate(PROP, 'C09/invalid-block-entered-state', 'a block with a damaged body (intact header) entered chain state')
                    break
                send_block(blk, op.get('peer2', 1), 'intact-after-damaged-copy', 'honest')
                batch[-1]['pool_before'] = w.pool_ids()
                if not settle_and_check():
                    break
            elif kind == 'bulk':
                if not settle_and_check():
                    break
                rb = sim.parent_of(op.get('tip', -1))
                txs, fees, _ = sim.build_txs(rb, op.get('txs', []))
                ts = rb.ts + max(1, op.get('dt', 60))
                if ts > w.node_clock() + 20:
                    ts = rb.ts + 1
                    if ts > w.node_clock() + 20:
                        continue
                blk = W.roundtrip(W.mine_honest(W.view_at(sim.cs, rb.id), txs, W.key(op.get('miner', 0) % 12), ts))
                if rules.block_id(blk) in accepted:
                    continue
                send_block(blk, op.get('peer', 0), 'bulk-download', 'context', route='bulk')
                res.bump('bulk_deliveries')
                if not settle_and_check():
                    break
            elif kind == 'bulk_burst':
                if not settle_and_check():
                    break
                rb = sim.parent_of(-1)
                c = w.conn(op.get('peer', 0))
                if c is None:
                    continue
                n_b = op.get('n', 3)
                if rb.ts + n_b + 2 > w.node_clock() + 15:
                    continue
                view = W.view_at(sim.cs, rb.id)
                made = []
                ts = rb.ts
                for j in range(n_b):
                    ts += 1
                    b_ = W.roundtrip(W.mine_honest(view, [], W.key((op.get('miner', 0) + j) % 12), ts))
                    made.append(b_)
                    view = view.add_block_no_validation(b_)
                serve = c.bot.b.get('serve')
                if serve is None:
                    serve = c.bot.b['serve'] = {'blocks': {}, 'chain': []}
                for b_ in made:
                    serve['blocks'][b_.hash()] = b_
                serve['chain'] = [rb.id] + [b_.hash() for b_ in made]      # follow-up requests for more inventory continue from here
                for b_ in made:
                    if not batch:
                        mark['inst0'] = len(installs)
                    batch.append({'block': b_, 'bid': rules.block_id(b_), 'label': 'bulk-download-burst', 'expect': 'context',
                                  't_send': w.node_clock(), 'route': 'bulk', 'known_at_send': False, 'conn': c,
                                  'parent_settled': True, 'counts_before': {}, 'greeted_before': []})
                c.send(M.InventoryMessage([M.InventoryItem(M.DATA_BLOCK, b_.hash()) for b_ in made[:500]]))
                res.bump('bulk_deliveries', n_b)
                res.bump('probe:bulk_burst_of_%s_blocks' % ('100_or_more' if n_b >= 100 else 'fewer_than_100'))
                w.settle(3000 + 60 * n_b)
                if not settle_and_check():
                    break
                serve['chain'] = []
            elif kind == 'redeliver_dropped':
                if not settle_and_check():
                    break
                cands = [b_ for b_ in dropped if b_.header.summary.previous_block_hash in accepted and rules.block_id(b_) not in accepted
                         and not (from_genesis and b_.height == 1)]     # (the world's trusted block 1 comes by first_synchronisation only)
                if not cands:
                    continue
                blk = cands[op.get('n', 0) % len(cands)]
                route = op.get('route', 'relay')
                send_block(blk, op.get('peer', 0), 'again-after-rollback:' + route, 'honest' if route == 'relay' else 'context', route=route)
                batch[-1]['pool_before'] = None
                res.bump('probe:dropped_block_delivered_again')
                if not settle_and_check():
                    break
            elif kind == 'requested_late':
                # a slow peer announces a block and is asked for it; before it answers, another peer relays the block and its
                # child; then the slow peer's answer arrives (a requested block the node has meanwhile stored, with a stored child)
                if not settle_and_check():
                    break
                rb = sim.parent_of(op.get('tip', -1))
                ts = rb.ts + max(1, op.get('dt', 60))
                if ts > w.node_clock() + 15:
                    continue
                b1 = W.roundtrip(W.mine_honest(W.view_at(sim.cs, rb.id), [], W.key(op.get('miner', 0) % 12), ts))
                if rules.block_id(b1) in accepted:
                    continue
                tmp_cs = sim.cs.add_block_no_validation(b1)
                b2 = W.roundtrip(W.mine_honest(tmp_cs if tmp_cs.current_chain_hash == rules.block_id(b1) else W.view_at(tmp_cs, rules.block_id(b1)),
                                               [], W.key(3), ts + 1))
                slow = w.conn(op.get('peer', 0))
                fast = w.conn(op.get('peer', 0) + 1)
                if slow is None or fast is None or slow.bot is fast.bot:
                    continue
                slow.bot.b['hold_getdata'] = True
                try:
                    slow.offer_block(b1)
                    w.settle(2500)
                    asked = len(slow.held)
                    send_block(b1, op.get('peer', 0) + 1, 'relayed-while-requested-elsewhere', 'honest')
                    if not settle_and_check():
                        break
                    send_block(b2, op.get('peer', 0) + 1, 'child-of-it', 'honest')
                    if not settle_and_check():
                        break
                finally:
                    slow.bot.b['hold_getdata'] = False
                if asked and not slow.closed:
                    if not batch:
                        mark['inst0'] = len(installs)
                    batch.append({'block': b1, 'bid': rules.block_id(b1), 'label': 'late-answer-to-own-request', 'expect': 'context',
                                  't_send': w.node_clock(), 'route': 'bulk', 'known_at_send': True, 'conn': slow, 'parent_settled': True,
                                  'counts_before': {k_: v_[0] for k_, v_ in w.count_block_messages(rules.block_id(b1)).items()},
                                  'greeted_before': [id(x) for x in w.greeted_bot_conns()]})
                    slow.release_held()
                    res.bump('probe:requested_block_arrives_after_it_was_stored_with_a_child')
                    if not settle_and_check():
                        break
            elif kind == 'dup':
                if not delivered_valid:
                    continue
                blk = delivered_valid[op.get('n', 0) % len(delivered_valid)]
                send_block(blk, op.get('peer', 0), 'duplicate', 'free', route=op.get('route', 'relay'))
                batch[-1]['pool_before'] = pool_now
                res.bump('probe:duplicate_delivery')
                if not settle_and_check():
                    break
            elif kind == 'forge':
                rb = sim.parent_of(op.get('tip', -1))
                o2 = dict(op)
                try:
                    made = forgeries.build(sim, op['kind'], rb, o2)
                except (W.Unminable, ValueError, OverflowError):
                    made = None
                if made is None:
                    continue
                blk, now_for_forgery = made
                # forgeries that play with the validator clock are aimed at the node's real clock here
                if op['kind'] == 'ts_now_plus_31':
                    continue
                try:
                    blk = W.roundtrip(blk)
                except Exception:
                    continue
                if blk.header.summary.timestamp > w.node_clock() + 20:
                    continue
                res.bump('forgery:' + op['kind'])
                res.distinct.add('forge:%s:%s' % (op['kind'], cfg.get('base')))
                if op.get('flush_during_validation'):
                    # the node's other thread (the miner, at the end of its found-block handler) flushes the store while the
                    # networking thread is inside the slow in-chain validation of this block
                    if not settle_and_check():
                        break
                    pool_now = w.pool_ids()
                    import skepticoin.networking.remote_peer as rp_
                    orig_v_ = rp_.validate_block_in_coinstate

                    def racing_validate(block_, coinstate_):
                        race_flushed.update(unflushed)      # blocks that were only buffered are on disk from now on
                        node.lp.disk_interface.flush_blocks()
                        res.bump('probe:other_thread_flushed_during_validation')
                        return orig_v_(block_, coinstate_)
                    rp_.validate_block_in_coinstate = racing_validate
                    try:
                        send_block(blk, op.get('peer', 0), 'forgery:' + op['kind'] + ':flush-during-validation', 'forgery')
                        batch[-1]['pool_before'] = pool_now
                        if not settle_and_check():
                            break
                    finally:
                        rp_.validate_block_in_coinstate = orig_v_
                    continue
                send_block(blk, op.get('peer', 0), 'forgery:' + op['kind'], 'forgery')
                batch[-1]['pool_before'] = pool_now
                if not op.get('overlap'):
                    if not settle_and_check():
                        break
            elif kind == 'submit_tx':
                if not settle_and_check():
                    break
                head = chain.head()
                txs, _, _ = sim.build_txs(head, [op.get('spec', {})])
                c = w.conn(op.get('peer', 0))
                if txs and c is not None:
                    c.send(M.DataMessage(M.DATA_TRANSACTION, txs[0]))
                    w.settle(2500)
                    res.bump('transactions_submitted')
                    if w.pool_ids():
                        res.bump('probe:pool_non_empty')
            elif kind == 'restart':
                if not cfg.get('file_store'):
                    continue
                if not settle_and_check():
                    break
                # the store keys a transaction to one block (known finding of C08): with a transaction shared by two
                # stored blocks a reload legitimately differs, so restarts are only generated without sharing
                seen_tx = set()
                shared = False
                for bid in accepted:
                    for t in sim.block_objs[bid].transactions:
                        tid = rules.tx_id(t)
                        if tid in seen_tx:
                            shared = True
                        seen_tx.add(tid)
                if shared:
                    res.bump('restart_skipped_shared_transaction')
                    continue
                if race_flushed - accepted or race_flushed & unflushed:
                    # blocks the other thread flushed while they were only buffered and that the node dropped afterwards are on
                    # disk: a restart brings them back (they were never judged); not followed by the reference (neither when they
                    # have been downloaded again since and are 'only buffered' for the node but on disk in fact)
                    res.bump('restart_skipped_race_flushed_blocks')
                    continue
                if unflushed:
                    model_drop(set(unflushed), 'probe:restart_lost_buffered_bulk_blocks')
                if op.get('graceful'):
                    # an orderly shutdown (LocalPeer.stop, what NetworkingThread.stop calls) instead of a kill: blocks that were
                    # only buffered because nothing validated vouches for them yet must not reach the disk this way either
                    w.k.current = node
                    try:
                        node.lp.stop()
                    finally:
                        w.k.current = None
                    res.bump('probe:orderly_shutdown_before_restart')
                node.crash()
                res.bump('fault:restart')
                bs.DefaultBlockStore.instance = bs.BlockStore(w.store_file)
                try:
                    cs2 = read_chain_from_disk()
                finally:
                    bs.DefaultBlockStore.instance.close()
                    bs.DefaultBlockStore.instance = None
                node.boot(cs2, peers=[])
                hook_installs()
                w.settle(1500)
                if w.node_ids() != accepted:
                    res.violate(PROP, 'C09/state-after-restart-differs',
                                'after a restart the node holds %d blocks, %d were accepted and stored' % (len(w.node_ids()), len(accepted)))
                    break
                # ties are reloaded in the store's order: the reference takes the reloaded head as first-seen
                nh = w.cm.coinstate.current_chain_hash
                if chain.blocks[nh].height != chain.head().height:
                    res.violate(PROP, 'C09/head-height-after-restart-differs', 'head height changed by a restart')
                    break
                chain.order.remove(nh)
                chain.order.insert(0, nh)
        if not res.violations and not node.loop_error:
            settle_and_check()
        if node.loop_error and not res.violations:
            res.violate(PROP, 'C09/exception-left-event-loop', '%s: %s' % node.loop_error[:2])
        res.distinct.add('run:%s:%d' % (cfg.get('base'), len(accepted) - len(initial_ids)))
    finally:
        w.close()
    res.digest = w.trace.digest()
    return res


def describe():
    return {
        'rule': 'one run = one seeded delivery script against one real node; distinct = (forgery kind x base) reached the '
                'node, plus (base, number of accepted relays); non-trivial = at least one delivery settled and judged',
        'components': {'real': ['LocalPeer, NetworkManager, ChainManager, ConnectedRemotePeer, MessageReceiver, message codecs',
                                'DiskInterface.save_block/flush_blocks', 'BlockStore on real SQLite (memory or file)',
                                'consensus / coinstate (full validation of relayed blocks)', 'scripts.utils.read_chain_from_disk on restart'],
                       'stub': ['TCP, selector, clock, randomness, logging (seams/net.py)', 'peers are scripted Bots', 'scrypt stand-in',
                                'hollow base (hreal) or genesis + trusted easy block 1 (hlow_easy)']},
        'assumptions': ['bulk-download deliveries (in_response_to != 0) are generated as context only: whether they are installed is not judged; '
                        'the node may drop all blocks installed unvalidated since its last validated install when it rejects a relay',
                        'a block whose timestamp is within the settle window of clock+30 carries no expectation'],
        'expected_probes': ['probe:first_synchronisation_from_genesis', 'accepted_relays', 'rejected_relays', 'probe:relay_became_head', 'probe:relay_on_side_chain',
                            'probe:orphan_dropped', 'probe:duplicate_delivery', 'probe:pool_non_empty', 'fault:restart'],
    }
