"""C08 — persistence fidelity: the block store returns what was written (real SQLite file)."""
import os
import sqlite3

from simkit.core import Streams, Result, Trace
from seams import env
from checks import ledger_common as LC

PROP = 'C08'
LEVEL = 'exploration'
BUDGET = {
    'quick': {'runs': 6000, 'wall': 150, 'chunk': 25},
    'thorough': {'runs': 80000, 'wall': 1500, 'chunk': 50},
}
MANIFEST = {
    'engine': 'store-sim',
    'level': 'exploration',
    'text': 'Seeded scripts over a generated block tree with transactions (multi-input/-output, forks, the same pending '
            'transaction on both sides of a fork, identical reward transactions in sibling blocks, reorganisations) against '
            'the real BlockStore on a real SQLite file: buffer (parents first, seeded order), buffer twice, flush with '
            'seeded batching, close/reopen, restart without flush, read back, rebuild the chain state from the store. '
            'After every read-back: ids, bytes, ids-of-bytes, parent-before-child order; after every rebuild: per-block '
            'ledger and head height against the in-memory tree. A separate fault-injecting batch fails a flush before '
            'commit (disk full) with a deliberately relaxed oracle.'
            " Half of the runs reach the store through the node's DiskInterface (save_block/flush_blocks); a discard_buffer operation (what the networking layer does when it rejects a validated block) is followed by handing the same blocks over again."
            " While a flush is raced the store's lock is a simulated lock: the second thread is tried inside the write and parked only if it really meets the held lock. Injected flush failures are persistent (disk full) or transient (one statement)."
            ' A few runs per batch build a store of about a thousand hand-made blocks (a window of sibling groups across the thousandth row, scattered siblings below), written in batches of 50-1000, reopened, read back completely and rebuilt: the size at which a paged, chunked or limited read-back first differs from a complete one.',
    'note': 'Trusted: reference store = list of flushed blocks; SQLite itself; no torn pages / crash inside commit '
            '(no VFS seam in Python sqlite3; the statement does not ask for them).',
}


def generate(seed, tier):
    rng = Streams(seed).get('gen')
    if rng.random() < (0.004 if tier == 'quick' else 0.008):
        # a store of about a thousand blocks (the size at which a paged, chunked or limited read-back would first differ from
        # a complete one) with many groups of competing blocks of one height
        return {'config': {'big': {'linear': rng.randint(880, 990), 'dense': rng.randint(40, 90), 'width': rng.choice([2, 2, 3]),
                                   'scatter': rng.choice([0.0, 0.03, 0.08]), 'batch': rng.choice([50, 100, 250, 1000]),
                                   'via_di': rng.random() < 0.5}},
                'ops': [{'op': 'big_store'}]}
    n = rng.randint(3, 30 if tier == 'quick' else 60)
    share = rng.random() < 0.3
    ops_build = []
    for i in range(n):
        m = LC.gen_mine(rng, latest_bias=0.55, max_txs=3)
        m['via'] = 'memory'
        m['clock'] = 0
        if not share:
            m['data'] = 'b%d' % i        # sibling rewards differ unless sharing is wanted
            m['nonce0'] = i
        if share and i > 0 and rng.random() < 0.35:
            j = rng.randrange(i)
            m['txs'] = ops_build[j]['txs']
            m['tip'] = j if ops_build[j]['tip'] == -1 else ops_build[j]['tip']
            if rng.random() < 0.3:
                m['miner'] = ops_build[j]['miner']
        ops_build.append(m)
    faulty = (not share) and rng.random() < 0.2
    ops = []
    left = n
    while left > 0:
        k = rng.choice([1, 1, 2, 3, 5, left])
        k = min(k, left)
        for _ in range(k):
            ops.append({'op': 'buffer_next', 'pick': rng.randrange(1000)})
            if rng.random() < 0.1:
                ops.append({'op': 'buffer_dup', 'n': rng.randrange(1000)})
        left -= k
        if faulty and rng.random() < 0.3:
            ops.append({'op': 'fail_next_flush', 'at': rng.randrange(6), 'once': rng.random() < 0.5})
        if not faulty and rng.random() < 0.15:
            ops.append({'op': 'race_buffer_during_flush', 'pick': rng.randrange(1000)})
        if not faulty and rng.random() < 0.12:
            ops.append({'op': 'discard_buffer'})
            left += k          # they are handed over again
            continue
        x = rng.random()
        if x < 0.75:
            ops.append({'op': 'flush'})
        elif x < 0.85:
            ops.append({'op': 'drop_reopen'})
        if rng.random() < 0.3:
            ops.append({'op': 'read_all'})
        if rng.random() < 0.15:
            ops.append({'op': 'close_reopen'})
        if rng.random() < 0.15:
            ops.append({'op': 'rebuild'})
    ops += [{'op': 'flush'}, {'op': 'close_reopen'}, {'op': 'read_all'}, {'op': 'rebuild'}]
    return {'config': {'base': 'hlow', 'nopow': True, 'share': share, 'faulty': faulty, 'build': ops_build,
                       'via_di': rng.random() < 0.5}, 'ops': ops}


class _FailingCursor:
    def __init__(self, cur, state):
        self._c = cur
        self._s = state

    def _tick(self):
        self._s['n'] += 1
        if self._s['n'] > self._s['at'] and not (self._s.get('once') and self._s['fired']):
            # persistent (disk full: every further statement fails too) or transient (one statement fails, the next ones work)
            self._s['fired'] = True
            raise sqlite3.OperationalError('database or disk is full')

    def execute(self, *a):
        self._tick()
        return self._c.execute(*a)

    def executemany(self, *a):
        self._tick()
        return self._c.executemany(*a)

    def close(self):
        return self._c.close()


class _WouldBlock(BaseException):
    """The second thread reached a lock that the first thread holds: it is parked until the lock is released."""


class _SeamLock:
    """Stands in for the store's threading.Lock while a flush is raced: the flushing thread takes and releases it as
    usual; when the harness lets the second thread run inside the flush, an acquire() of the held lock parks that thread
    (raises _WouldBlock, caught by the harness), while code that does not take the lock simply goes ahead - as it would."""

    def __init__(self):
        self.held = False
        self.second_thread = False

    def acquire(self, blocking=True, timeout=-1):
        if self.held:
            if self.second_thread:
                raise _WouldBlock()
            raise RuntimeError('harness: the flushing thread re-acquires its own lock')
        self.held = True
        return True

    def release(self):
        self.held = False

    def locked(self):
        return self.held

    __enter__ = acquire

    def __exit__(self, *a):
        self.release()


class _FailingConnection:
    """Stands in for the sqlite3 connection during one flush: the k-th statement raises 'disk full'."""

    def __init__(self, conn, at, once=False):
        self._conn = conn
        self.state = {'n': 0, 'at': at, 'fired': False, 'once': once}

    def cursor(self):
        return _FailingCursor(self._conn.cursor(), self.state)

    def __getattr__(self, name):
        return getattr(self._conn, name)


def _execute_big(script):
    """About a thousand hand-made blocks (coinbase only; storage does not look at validity): a trunk plus dead-end siblings,
    written in batches, then a restart: everything written reads back, parents first, and the rebuilt state is at the trunk tip."""
    import immutables
    import skepticoin.blockstore as bs
    from skepticoin.blockstore import BlockStore
    from skepticoin.scripts.utils import read_chain_from_disk
    from skepticoin.consensus import construct_coinbase_transaction, calc_merkle_root_hash
    from skepticoin.datatypes import Block, BlockHeader, BlockSummary, PowEvidence
    from skepticoin.networking.disk_interface import DiskInterface
    from engines.ledger import key
    res = Result()
    trace = Trace()
    big = script['config']['big']
    rng = Streams(big['linear'] * 1000 + big['dense']).get('big')
    path = os.path.join(env.scratch_dir(), 'c08big-%d.db' % os.getpid())
    for suffix in ('', '-journal'):
        try:
            os.remove(path + suffix)
        except OSError:
            pass
    store = BlockStore(path)
    try:
        genesis = next(iter(store.read_blocks_from_disk()))
        pk = key(0).pk

        def child(parent, tag):
            h = parent.height + 1
            cb = construct_coinbase_transaction(h, [], immutables.Map(), tag, pk)
            s = BlockSummary(h, parent.hash(), calc_merkle_root_hash([cb]), parent.timestamp + 1, b'\xff' * 32, 0)
            return Block.deserialize(Block(BlockHeader(s, PowEvidence(b'\x00' * 32, b'\x00' * 32, b'\x00' * 32)), [cb]).serialize())

        written = [genesis]
        order = []
        tip = genesis
        top = big['linear'] + big['dense']
        for h in range(1, top + 1):
            extra = 0
            if h == top:
                extra = 0               # one unrivalled block on top: the head is unique whatever the order among equals
            elif h > big['linear']:
                extra = big['width'] - 1
            elif rng.random() < big['scatter']:
                extra = 1
            group = [child(tip, b'trunk')] + [child(tip, b'side%d' % j) for j in range(extra)]
            order += group
            tip = group[0]
        di = DiskInterface()
        via_di = big.get('via_di')
        n = 0
        for blk in order:
            if via_di:
                bs.DefaultBlockStore.instance = store
                di.save_block(blk)
            else:
                store.add_block_to_buffer(blk)
            n += 1
            if n % big['batch'] == 0:
                if via_di:
                    di.flush_blocks()
                else:
                    store.flush_blocks_to_disk()
                res.bump('flushes')
        if via_di:
            di.flush_blocks()
        else:
            store.flush_blocks_to_disk()
        res.bump('flushes')
        written += order
        store.close()
        store = BlockStore(path)
        res.bump('reopens')
        got = list(store.read_blocks_from_disk())
        res.bump('read_backs')
        res.events += len(got)
        want = {b.hash(): b.serialize() for b in written[1:]}
        ids = [b.hash() for b in got]
        seen = set()
        msg = None
        if len(set(ids)) != len(ids):
            msg = 'a block id is returned twice'
        else:
            for b in got:
                bid = b.hash()
                p = b.header.summary.previous_block_hash
                if bid != genesis.hash() and bid not in want:
                    msg = 'store returned a block that was never flushed'
                    break
                if p != b'\x00' * 32 and p not in seen:
                    msg = 'block %s (height %d) returned before its parent%s' % (
                        bid.hex()[:12], b.height, '' if p in set(ids) else ', which is not returned at all')
                    break
                if bid in want and b.serialize() != want[bid]:
                    msg = 'block at height %d does not read back byte-identical' % b.height
                    break
                seen.add(bid)
            if msg is None and len(ids) != len(written):
                missing = [b for b in written if b.hash() not in seen]
                msg = '%d of %d flushed blocks are not read back (first: height %d, row %d of the table in height order)' % (
                    len(missing), len(written), missing[0].height, sorted(x.height for x in written).index(missing[0].height))
        if msg is not None:
            res.violate(PROP, 'C08/readback-mismatch', 'store of %d blocks: %s' % (len(written), msg), {'f6_consistent': False})
        else:
            bs.DefaultBlockStore.instance = store
            with env.quiet():
                cs = read_chain_from_disk()
            res.bump('rebuilds')
            if cs.head().hash() != tip.hash() or len(cs.block_by_hash) != len(written):
                res.violate(PROP, 'C08/rebuilt-state-lacks-block', 'store of %d blocks: rebuilt head at height %d (want %d), %d blocks in the '
                            'rebuilt state' % (len(written), cs.head().height, tip.height, len(cs.block_by_hash)), {'f6_consistent': False})
        res.bump('probe:store_of_a_thousand_blocks_with_sibling_groups')
        res.bump('probe:tree_has_fork')
        trace.add('big', len(written), tip.hash())
    finally:
        try:
            store.close()
        except Exception:
            pass
        for suffix in ('', '-journal'):
            try:
                os.remove(path + suffix)
            except OSError:
                pass
    res.distinct.add('big:%d:%d:%d:%s' % (big['linear'], big['dense'], big['width'], big['scatter']))
    res.digest = trace.digest()
    return res


def execute(script):
    env.setup()
    env.use_fast_scrypt(True)
    if script['config'].get('big'):
        return _execute_big(script)
    import skepticoin.blockstore as bs
    from skepticoin.blockstore import BlockStore
    from skepticoin.scripts.utils import read_chain_from_disk
    from skepticoin.genesis import genesis_block_data
    from skepticoin.datatypes import Block
    from engines.ledger import LedgerSim, compare_utxo
    from refmodel import rules

    res = Result()
    trace = Trace()
    cfg = script['config']
    sim = LedgerSim(cfg, PROP, res, trace)
    sim.run(cfg['build'])
    chain = sim.chain
    genesis_id = sim.stored[0]
    tree = sim.stored[1:]
    objs = sim.block_objs
    path = os.path.join(env.scratch_dir(), 'c08-%d.db' % os.getpid())
    for suffix in ('', '-journal'):
        try:
            os.remove(path + suffix)
        except OSError:
            pass
    store = BlockStore(path)
    buffered = []          # ids in the write buffer (harness view)
    handed = set()         # ids ever handed to the store and not lost
    flushed = [genesis_id]  # RefStore: ids in flush order (genesis is written at creation)
    raw = {genesis_id: genesis_block_data}
    for b in tree:
        raw[b] = objs[b].serialize()
    wedged = False
    fail_at = None
    fail_once = False
    had_fault = False
    pre_fault, fault_batch = [], []

    def expected_under_f6():
        """What the known schema defect predicts: a transaction id is kept with the first stored block only."""
        owner = {}
        out = {}
        for bid in flushed:
            blk = Block.deserialize(raw[bid])
            keep = []
            for t in blk.transactions:
                tid = rules.tx_id(t)
                if tid not in owner:
                    owner[tid] = bid
                if owner[tid] == bid:
                    keep.append(tid)
            out[bid] = keep
        return out

    def read_all():
        got = list(store.read_blocks_from_disk())
        ids = [b.hash() for b in got]
        mismatch = None
        if len(set(ids)) != len(ids):
            return 'a block id is returned twice', False
        ids = set(ids)
        ideal = {bid: raw[bid] for bid in flushed}
        seen = set()
        by_id = {}
        for b in got:
            bid = b.hash()
            if bid not in ideal:
                return 'store returned a block that was never flushed: %s' % bid.hex()[:12], False
            by_id[bid] = b
            p = b.header.summary.previous_block_hash
            if p != b'\x00' * 32 and p not in seen and p in ids:
                return 'child %s returned before its parent' % bid.hex()[:12], False
            seen.add(bid)
        exact = True
        for bid in flushed:
            b = by_id.get(bid)
            if b is None or b.serialize() != ideal[bid] or rules.block_id(b) != bid:
                exact = False
                break
            for t in b.transactions:
                if t.hash() != rules.tx_id(t):
                    return 'transaction read back with an id that is not the hash of its bytes', False
        if exact:
            return None, False
        # not exact: is it precisely the known shared-transaction loss?
        f6 = expected_under_f6()
        consistent = True
        for bid in flushed:
            keep = f6[bid]
            b = by_id.get(bid)
            if not keep:
                if b is not None:
                    consistent = False
                continue
            if b is None or [rules.tx_id(t) for t in b.transactions] != keep or rules.block_id(b) != bid:
                consistent = False
        shared_exists = any(len(f6[bid]) != len(Block.deserialize(raw[bid]).transactions) for bid in flushed)
        lost = [bid.hex()[:12] for bid in flushed
                if by_id.get(bid) is None or by_id[bid].serialize() != ideal[bid]]
        return ('%d of %d flushed blocks do not read back byte-identical (%s)' % (len(lost), len(flushed), lost[:3]),
                consistent and shared_exists)

    def relaxed_resync():
        """After a failed flush and a restart: the store must hold every block flushed before the fault, plus a
        parent-closed, byte-identical subset of the failing batch; the reference continues from what is there."""
        nonlocal flushed, handed, had_fault
        got = {b.hash(): b for b in store.read_blocks_from_disk()}
        for bid, b in got.items():
            if bid not in pre_fault and bid not in fault_batch:
                res.violate(PROP, 'C08/unknown-block-after-failed-flush', 'block never handed to the store')
        in_chain = {row[0] for row in store.sql('select block_hash from chain')}
        for bid in in_chain:
            p = chain.blocks[bid].parent if bid in chain.blocks else None
            if p is not None and p.id not in in_chain:
                res.violate(PROP, 'C08/orphan-after-failed-flush', 'stored block without stored parent')
        for bid in pre_fault:
            if bid not in in_chain:
                res.violate(PROP, 'C08/flushed-block-lost-after-failed-flush',
                            'a block flushed before the failing flush is gone: %s' % bid.hex()[:12])
        flushed = pre_fault + [b for b in fault_batch if b in in_chain]
        if not res.violations:
            # byte fidelity of what is there, with the same narrow exception for the known shared-transaction loss
            msg, f6_only = read_all()
            if msg is not None:
                res.violate(PROP, 'C08/readback-mismatch' if f6_only else 'C08/readback-mismatch-after-failed-flush', msg,
                            {'f6_consistent': bool(f6_only)})
        handed = set(flushed) - {genesis_id}
        had_fault = False
        res.bump('relaxed_resyncs')

    # the node reaches the store through its DiskInterface (save_block / flush_blocks): half of the runs take that route
    from skepticoin.networking.disk_interface import DiskInterface
    di = DiskInterface()
    via_di = bool(cfg.get('via_di'))
    if via_di:
        res.bump('probe:store_reached_through_disk_interface')

    def hand(blk):
        if via_di:
            bs.DefaultBlockStore.instance = store
            di.save_block(blk)
        else:
            store.add_block_to_buffer(blk)

    def flush_store():
        if via_di:
            bs.DefaultBlockStore.instance = store
            di.flush_blocks()
        else:
            store.flush_blocks_to_disk()

    try:
        for op in script['ops']:
            kind = op['op']
            res.events += 1
            if kind == 'discard_buffer':
                # what the networking layer does when it rejects a validated block: everything still buffered is thrown
                # away (the blocks are no longer accepted; they may be accepted and handed over again later)
                if wedged or had_fault or not buffered:
                    continue
                store.write_buffer.clear()
                for b in buffered:
                    if b not in flushed:
                        handed.discard(b)
                buffered = []
                res.bump('probe:buffer_discarded_then_blocks_handed_over_again')
            elif kind == 'buffer_next':
                todo = [b for b in tree if b not in handed]
                ready = [b for b in todo if chain.blocks[b].parent.id in handed or chain.blocks[b].parent.id == genesis_id]
                if not ready:
                    continue
                b = ready[op.get('pick', 0) % len(ready)]
                hand(objs[b])
                buffered.append(b)
                handed.add(b)
                trace.add('buffer', b)
            elif kind == 'buffer_dup':
                if not handed:
                    continue
                hs = sorted(handed)
                b = hs[op.get('n', 0) % len(hs)]
                hand(objs[b])
                buffered.append(b)
                res.bump('probe:block_buffered_twice')
            elif kind == 'race_buffer_during_flush':
                # a second thread (miner / network) hands over the next block WHILE a flush is writing: it is let in right
                # after the write returns if and only if the store's lock is free at that instant, otherwise it waits
                if wedged or had_fault or not buffered:
                    continue
                todo = [b for b in tree if b not in handed]
                ready = [b for b in todo if chain.blocks[b].parent.id in handed or chain.blocks[b].parent.id == genesis_id]
                if not ready:
                    continue
                nb = ready[op.get('pick', 0) % len(ready)]
                st = {'done': False, 'nested': False}
                orig_w = store.write_blocks_to_disk

                real_lock = store.lock
                seam_lock = store.lock = _SeamLock()

                def other_thread(inside):
                    # the second thread hands its block over; inside the flush it is parked if it meets the held lock
                    if st['done']:
                        return
                    seam_lock.second_thread = inside
                    try:
                        hand(objs[nb])
                        st['done'] = True
                        if inside:
                            st['nested'] = True
                    except _WouldBlock:
                        res.bump('probe:other_thread_parked_at_the_store_lock')
                    finally:
                        seam_lock.second_thread = False

                def seam(blocks):
                    # the second thread gets its turn while the write is in progress (before and after the SQL)
                    if op.get('pick', 0) % 2:
                        other_thread(True)
                    r = orig_w(blocks)
                    other_thread(True)
                    return r
                store.write_blocks_to_disk = seam
                try:
                    flush_store()
                except sqlite3.Error as e:
                    res.violate(PROP, 'C08/flush-raised', 'flush raised %s: %s' % (type(e).__name__, e))
                    break
                finally:
                    del store.write_blocks_to_disk
                    store.lock = real_lock
                other_thread(False)         # if it was parked it runs now
                for b in buffered:
                    if b not in flushed:
                        flushed.append(b)
                buffered = [nb]
                handed.add(nb)
                res.bump('flushes')
                res.bump('races')
                if st['nested']:
                    res.bump('probe:other_thread_entered_during_flush')
            elif kind == 'fail_next_flush':
                fail_at = op.get('at', 0)
                fail_once = bool(op.get('once'))
            elif kind == 'flush':
                inject = fail_at is not None and buffered
                real = store.connection
                fc = None
                if inject:
                    fc = _FailingConnection(real, fail_at, fail_once)
                    if fail_once:
                        res.bump('fault:flush_failed_one_statement')
                    store.connection = fc
                    fail_at = None
                flush_err = None
                try:
                    flush_store()
                    ok = True
                except sqlite3.Error as e:
                    ok = False
                    flush_err = e
                finally:
                    store.connection = real
                if ok:
                    for b in buffered:
                        if b not in flushed:
                            flushed.append(b)
                    buffered = []
                    wedged = False
                    had_fault = False
                    res.bump('flushes')
                    trace.add('flush', len(flushed))
                elif fc is not None and fc.state['fired']:
                    res.bump('fault:flush_failed_disk_full')
                    if not had_fault:
                        pre_fault = list(flushed)
                        fault_batch = []
                    had_fault = True
                    fault_batch += [b for b in buffered if b not in flushed and b not in fault_batch]
                    wedged = True   # until a flush succeeds or the store is reopened nothing is read through this connection
                elif wedged:
                    # the connection was left inside an open transaction by the failed flush (observation, DESIGN 7)
                    res.bump('probe:flush_after_failed_flush_raises')
                    fault_batch += [b for b in buffered if b not in flushed and b not in fault_batch]
                else:
                    res.violate(PROP, 'C08/flush-raised', 'flushing accepted blocks (parents first) raised %s: %s' % (
                        type(flush_err).__name__, flush_err))
                    break
            elif kind in ('close_reopen', 'drop_reopen'):
                if kind == 'drop_reopen' and buffered:
                    res.bump('fault:restart_without_flush')
                if kind == 'close_reopen' and not wedged and not had_fault:
                    try:
                        flush_store()
                    except sqlite3.Error as e:
                        res.violate(PROP, 'C08/flush-raised', 'flushing accepted blocks (parents first) raised %s: %s' % (type(e).__name__, e))
                        break
                    for b in buffered:
                        if b not in flushed:
                            flushed.append(b)
                    buffered = []
                store.close()
                store = BlockStore(path)
                # unflushed blocks are legitimately lost: they can be handed over again
                handed = set(flushed) - {genesis_id}
                # a lost parent makes its buffered descendants lost too (they were in the same buffer)
                buffered = []
                wedged = False
                res.bump('reopens')
                if had_fault:
                    relaxed_resync()
                    if res.violations:
                        break
            elif kind == 'read_all':
                if wedged or had_fault:
                    continue
                msg, f6_only = read_all()
                res.bump('read_backs')
                if had_fault:
                    raise RuntimeError('harness: fault not resynchronised')
                if msg is not None:
                    cls = 'C08/readback-mismatch' if msg.endswith(')') else 'C08/readback-' + msg.split(' ')[0] + '-' + msg.split(' ')[1]
                    res.violate(PROP, cls, msg, {'f6_consistent': bool(f6_only)})
                    break
            elif kind == 'rebuild':
                if wedged or had_fault:
                    continue
                bs.DefaultBlockStore.instance = store
                try:
                    cs = read_chain_from_disk()
                finally:
                    bs.DefaultBlockStore.instance = None
                res.bump('rebuilds')
                f6 = expected_under_f6()
                affected = set()
                for bid in flushed:
                    full = len(Block.deserialize(raw[bid]).transactions)
                    par = chain.blocks[bid].parent
                    if len(f6[bid]) != full or (par is not None and par.id in affected):
                        affected.add(bid)
                if affected:
                    res.bump('probe:rebuild_with_shared_transactions')
                ok_ids = [b for b in flushed if b not in affected]
                for bid in ok_ids:
                    if bid not in cs.block_by_hash:
                        res.violate(PROP, 'C08/rebuilt-state-lacks-block', 'block %s flushed but not in the rebuilt state' % bid.hex()[:12],
                                    {'f6_consistent': False})
                        break
                    if not compare_utxo(cs, chain, bid):
                        res.violate(PROP, 'C08/rebuilt-ledger-differs', 'ledger at %s differs after rebuild' % bid.hex()[:12],
                                    {'f6_consistent': False})
                        break
                if res.violations:
                    break
                extra = set(cs.block_by_hash.keys()) - set(flushed)
                if extra:
                    res.violate(PROP, 'C08/rebuilt-state-has-unknown-block', 'rebuilt state has blocks never flushed')
                    break
                if not affected:
                    want_h = max(chain.blocks[b].height for b in flushed)
                    if cs.head().height != want_h:
                        res.violate(PROP, 'C08/rebuilt-head-height-differs', 'head height %d after rebuild, %d in memory' % (
                            cs.head().height, want_h))
                        break
                    if set(cs.block_by_hash.keys()) != set(flushed):
                        res.violate(PROP, 'C08/rebuilt-state-lacks-block', 'rebuilt block set differs', {'f6_consistent': False})
                        break
    finally:
        try:
            store.close()
        except Exception:
            pass
        for suffix in ('', '-journal'):
            try:
                os.remove(path + suffix)
            except OSError:
                pass
    forks = sum(1 for b in sim.stored if chain.blocks[b].children > 1)
    res.distinct.add('tree:%d:%d:flushes=%d:share=%s' % (len(tree), forks, res.stats.get('flushes', 0), cfg.get('share')))
    if forks:
        res.bump('probe:tree_has_fork')
    res.digest = trace.digest()
    return res


def classify_known(script, violation):
    if violation['cls'] == 'C08/readback-mismatch' and violation.get('data', {}).get('f6_consistent'):
        return 'shared_transaction'
    return None


def describe():
    return {
        'rule': 'one run = one generated tree + one script of buffer/flush/reopen/read/rebuild operations on a real SQLite '
                'file; distinct = (tree size, fork count, number of flushes, sharing on/off); non-trivial = at least one '
                'flush and one read-back (every script ends with flush, reopen, read_all, rebuild)',
        'components': {'real': ['skepticoin.blockstore.BlockStore on a real SQLite file', 'skepticoin.scripts.utils.read_chain_from_disk',
                                'skepticoin.coinstate / balances (rebuild)', 'skepticoin.datatypes codecs'],
                       'stub': ['blocks enter the builder state through add_block_no_validation (no proof of work needed for storage)',
                                'disk-full fault injected at the sqlite cursor boundary']},
        'assumptions': ['blocks are handed to the store parents-first, as the node does',
                        'F6 (shared transaction) is a listed known finding: only the exact predicted loss is downgraded'],
        'expected_probes': ['probe:store_of_a_thousand_blocks_with_sibling_groups', 'flushes', 'read_backs', 'rebuilds', 'reopens', 'probe:tree_has_fork', 'probe:block_buffered_twice',
                            'fault:restart_without_flush', 'fault:flush_failed_disk_full', 'probe:rebuild_with_shared_transactions', 'races'],
    }
