"""C02 — header rules: proof of work, difficulty, height, time, evidence; own assembly satisfies them."""
from checks import ledger_common as LC

PROP = 'C02'
LEVEL = 'exploration'
BUDGET = {
    'quick': {'runs': 1600, 'wall': 150, 'chunk': 10},
    'thorough': {'runs': 60000, 'wall': 1500, 'chunk': 50},
}


MANIFEST = {
    'engine': 'ledger-sim',
    'level': 'exploration',
    'text': 'Seeded search over chain histories and 12 value-forgery kinds (reward +1, fees from elsewhere, zero / over-limit / overflowing outputs, outputs exceeding inputs, multiple or misplaced rewards); per accepted block the total of the unspent set is compared with parent total + subsidy(height) using an independent replay. Heights reached: first subsidy era only. Sampling, not proof.',
    'note': 'Trusted: reference ledger/rules, repo serializers as tools, scrypt stand-in, hollow base.',
}


def generate(seed, tier):
    return LC.generate(seed, tier, PROP)


def execute(script):
    return LC.execute(script, PROP)


def describe():
    return {
        'rule': 'one run = one seeded script of 8-60 operations (honest blocks whose transactions pay fees from 0 to everything, value forgeries first, other forgeries mixed in) against CoinState.add_block, followed by a per-block comparison of the unspent total with parent total + subsidy(height); distinct by (forgery kind x base kind x delivery form) and base configuration; non-trivial = candidate reached the in-chain rules',
        'components': LC.COMPONENTS,
        'assumptions': ['scrypt replaced by a fast hash (C18 runs the real one)',
                        'hollow base: heights below the base tip are unvalidated fillers',
                        'reference target/time/height rules are independent code; evidence and merkle root are '
                        'recomputed with the repo constructors as tools'],
        'expected_probes': ['probe:fork_created', 'probe:reorganisation', 'probe:block_with_transactions', 'probe:retarget_boundary_crossed'],
    }
