"""C02 — header rules: proof of work, difficulty, height, time, evidence; own assembly satisfies them."""
from checks import ledger_common as LC

PROP = 'C02'
LEVEL = 'exploration'
BUDGET = {
    'quick': {'runs': 1600, 'wall': 150, 'chunk': 10},
    'thorough': {'runs': 60000, 'wall': 1500, 'chunk': 50},
}


MANIFEST = {
    'engine': 'ledger-sim',
    'level': 'exploration',
    'text': 'Seeded search over chain histories and 12 value-forgery kinds (reward +1, fees from elsewhere, zero / over-limit / overflowing outputs, outputs exceeding inputs, multiple or misplaced rewards); per accepted block the total of the unspent set is compared with parent total + subsidy(height) using an independent replay. Heights reached: first subsidy era only. Sampling, not proof.',
    'note': 'Trusted: reference ledger/rules, repo serializers as tools, scrypt stand-in, hollow base.',
}


def generate(seed, tier):
    return LC.generate(seed, tier, PROP)


def execute(script):
    return LC.execute(script, PROP)


def describe():
    return {
        'rule': 'one run = one seeded script of 8-60 operations (honest blocks assembled by the node on any stored '
                'tip, header/spend/value/structure forgeries sealed with recomputed merkle root, evidence and nonce, '
                'stated-target probes over 256-bit targets) against CoinState.add_block; a case is distinct by '
                '(forgery kind x base kind x delivery form), base configuration, and bit-length class of '
                '(previous target, elapsed) for stated-target probes; non-trivial = reached the in-state rules',
        'components': LC.COMPONENTS,
        'assumptions': ['scrypt replaced by a fast hash (C18 runs the real one)',
                        'hollow base: heights below the base tip are unvalidated fillers',
                        'reference target/time/height rules are independent code; evidence and merkle root are '
                        'recomputed with the repo constructors as tools'],
        'expected_probes': ['probe:retarget_boundary_crossed', 'probe:boundary_forgery', 'probe:fork_created',
                            'probe:reorganisation', 'stated_target_cases'],
    }
