"""C13 — the pending-transaction pool holds only valid, mutually compatible transactions."""
import hashlib

from simkit.core import Streams, Result
from seams import env
from checks import ledger_common as LC

PROP = 'C13'
LEVEL = 'exploration'
BUDGET = {
    'quick': {'runs': 700, 'wall': 170, 'chunk': 4},
    'thorough': {'runs': 30000, 'wall': 1700, 'chunk': 10},
}
MANIFEST = {
    'engine': 'node-sim (1 real node)',
    'level': 'exploration',
    'text': 'One real node among scripted peers; seeded interleavings of transaction submissions over the wire (valid, '
            'conflicting with a pooled one, malformed in each stand-alone way, already mined, spending an output of the '
            'other fork, exact duplicate, same payment re-signed) with head changes (extension mining some pooled '
            'transactions, side-fork block, reorganisation that un-spends and re-spends outputs, rejected blocks in '
            'between). After every settled operation: every pooled transaction is valid at the head per the independent '
            'rules, inputs are pairwise disjoint, nothing failing either test was admitted, after a head change the pool '
            '(as a set) equals the still-valid part of the old pool, and a valid, new, non-conflicting submission was admitted.'
            " Blocks also arrive by the bulk-download route; a rejected relay's fall-back to the last validated state counts as a head change; transactions the node verified earlier in the run are offered again with signatures that do not verify once their inputs are unspent again."
            ' Competing branches also arrive by bulk download.'
            ' Submitted transactions include valid ones a few bytes larger than a block (never admitted: they could never be mined).',
    'note': 'Trusted: reference rules and ledger replay; Bots; simulated network/clock. Pool order is not part of the statement.',
}

TX_KINDS = ['valid', 'valid', 'valid', 'conflict', 'duplicate', 'resigned', 'already_mined', 'other_fork',
            'no_outputs', 'out_zero', 'overspend', 'dup_ref', 'null_ref', 'placeholder', 'wrong_key', 'missing',
            'coinbasedata_sig', 'over_max', 'seen_before_bad_sig', 'seen_before_bad_sig', 'oversize']


def generate(seed, tier):
    rng = Streams(seed).get('gen')
    base = 'hreal' if rng.random() < 0.7 else 'hlow_easy'
    build = [LC.gen_mine(rng, latest_bias=0.8, max_txs=2) for _ in range(rng.randint(2, 5))]
    for m in build:
        m['clock'] = 0
        m['via'] = 'memory'
    ops = []
    for _ in range(rng.randint(10, 28 if tier == 'quick' else 60)):
        x = rng.random()
        if x < 0.6:
            ops.append({'op': 'submit', 'kind': rng.choice(TX_KINDS), 'spec': LC.gen_tx_spec(rng), 'a': rng.randrange(1000),
                        'peer': rng.randrange(4), 'overlap': rng.random() < 0.2})
        elif x < 0.8:
            ops.append({'op': 'extend', 'mask': rng.getrandbits(8), 'miner': rng.randrange(12), 'dt': rng.choice([1, 30, 60]),
                        'peer': rng.randrange(4), 'route': rng.choice(['relay', 'relay', 'response'])})
        elif x < 0.9:
            ops.append({'op': 'side', 'depth': rng.choice([1, 1, 2, 3]), 'len': rng.choice([1, 1, 2, 3, 4]),
                        'spec': LC.gen_tx_spec(rng), 'miner': rng.randrange(12), 'peer': rng.randrange(4),
                        'route': rng.choice(['relay', 'relay', 'response'])})      # a competing branch may also come by bulk download
        elif x < 0.93:
            ops.append({'op': 'race', 'spec': LC.gen_tx_spec(rng), 'variant': rng.choice(['rival_mined', 'same_mined']),
                        'miner': rng.randrange(12)})
        else:
            ops.append({'op': 'bad_block', 'kind': rng.choice(['sig_other_key', 'reward_plus_one', 'wrong_merkle', 'spend_missing']),
                        'a': rng.randrange(1000), 'b': rng.randrange(1000), 'peer': rng.randrange(4)})
    return {'config': {'base': base, 'build': build, 'bots': rng.randint(2, 4)}, 'ops': ops}


def execute(script):
    env.setup()
    from engines.nodesim import NodeWorld
    from engines import forgeries
    from refmodel import rules
    from world import ledger as W
    from skepticoin.networking import messages as M
    from skepticoin.datatypes import Transaction, Input, Output, OutputReference
    from skepticoin.signing import SECP256k1Signature, SignableEquivalent, CoinbaseData

    res = Result()
    cfg = script['config']
    w = NodeWorld(script, PROP, res, n_bots=cfg.get('bots', 3))
    try:
        sim = w.sim
        chain = sim.chain
        node = w.node
        if sim.dead or node.loop_error:
            return res
        ref_pool = []            # RefPool: transactions the reference expects in the pool (by id)
        once_pooled = []         # every transaction that was admitted at some time in this run
        submitted = {}           # id -> (tx, kind)

        def head():
            return chain.blocks[w.cm.coinstate.current_chain_hash]

        def valid_at(tx, rb):
            broken, _ = rules.judge_transaction(tx, rb.utxo, sim.sig_cache)
            return not broken

        def refs_of(tx):
            return {(i.output_reference.hash, i.output_reference.index) for i in tx.inputs}

        def check_pool(what):
            if node.loop_error:
                res.violate(PROP, 'C13/exception-left-event-loop', '%s: %s' % node.loop_error[:2])
                return False
            hb = head()
            pool = list(w.cm.transaction_pool)
            seen = set()
            for tx in pool:
                broken, _ = rules.judge_transaction(tx, hb.utxo, sim.sig_cache)
                if broken:
                    res.violate(PROP, 'C13/invalid-transaction-in-pool',
                                '%s: a pooled transaction is not valid at the head: %s' % (what, broken))
                    return False
                r = refs_of(tx)
                if r & seen:
                    res.violate(PROP, 'C13/conflicting-transactions-in-pool', '%s: two pooled transactions spend the same output' % what)
                    return False
                seen |= r
            got = sorted(rules.tx_id(t) for t in pool)
            want = sorted(rules.tx_id(t) for t in ref_pool)
            if got != want:
                g, wn = set(got), set(want)
                res.violate(PROP, 'C13/pool-differs-from-expected',
                            '%s: pool has %d transactions, expected %d (unexpected %d, missing %d)' % (
                                what, len(got), len(want), len(g - wn), len(wn - g)))
                return False
            return True

        def make_tx(kind, op):
            hb = head()
            a = op.get('a', 0)
            txs, _, _ = sim.build_txs(hb, [op.get('spec', {})], set().union(*[refs_of(t) for t in ref_pool]) if ref_pool else set())
            base_tx = txs[0] if txs else None
            if kind == 'valid':
                return base_tx
            if kind == 'conflict':
                if not ref_pool:
                    return base_tx
                victim = ref_pool[a % len(ref_pool)]
                ref = sorted(refs_of(victim))[0]
                if ref not in hb.utxo:
                    return None
                v, pub = hb.utxo[ref]
                return W.make_tx([ref], [(v, W.key(a % 12))], [W.key_by_pub(pub)])
            if kind == 'duplicate':
                return ref_pool[a % len(ref_pool)] if ref_pool else base_tx
            if kind == 'resigned':
                if not ref_pool:
                    return base_tx
                victim = ref_pool[a % len(ref_pool)]
                msg = rules.blank_message(victim)
                ins = []
                for i in victim.inputs:
                    ref = (i.output_reference.hash, i.output_reference.index)
                    if ref not in hb.utxo:
                        return None
                    k = W.key_by_pub(hb.utxo[ref][1])
                    sig = k.sk.sign_deterministic(msg, hashfunc=hashlib.sha1, extra_entropy=b'again%d' % a)
                    ins.append(Input(i.output_reference, SECP256k1Signature(sig)))
                return Transaction(ins, list(victim.outputs))
            if kind == 'already_mined':
                cur = hb
                while cur is not None and cur.parent is not None:
                    blk = sim.block_objs.get(cur.id)
                    if blk is not None and len(blk.transactions) > 1:
                        return blk.transactions[1 + a % (len(blk.transactions) - 1)]
                    cur = cur.parent
                return None
            if kind == 'other_fork':
                anc = set(chain.ancestors(hb).values())
                for bid in sim.stored:
                    if bid in anc:
                        continue
                    ob = chain.blocks[bid]
                    for ref, (v, pub) in sorted(ob.utxo.items()):
                        if ref not in hb.utxo and W.key_by_pub(pub) is not None:
                            return W.make_tx([ref], [(v, W.key(a % 12))], [W.key_by_pub(pub)])
                return None
            if kind in ('oversize', 'huge_valid'):
                # a correctly signed, non-overspending transaction just above (or just within) the size of a whole block
                avail = [r for r in sorted(hb.utxo) if W.key_by_pub(hb.utxo[r][1]) is not None and hb.utxo[r][0] > 0
                         and not any(r in refs_of(t) for t in ref_pool)]
                if not avail:
                    return None
                per_out = 73
                for n_in in range(1, min(len(avail), 9) + 1):
                    refs = avail[:n_in]
                    total = sum(hb.utxo[r][0] for r in refs)
                    signers = [W.key_by_pub(hb.utxo[r][1]) for r in refs]
                    probe = W.make_tx(refs, [(1, W.key(1))] * 10, signers)
                    base_ = len(probe.serialize()) - 10 * per_out
                    for n_out in range((rules.MAX_BLOCK_SIZE - base_) // per_out - 1, (rules.MAX_BLOCK_SIZE - base_) // per_out + 3):
                        if n_out < 1 or total < n_out:
                            continue
                        size = base_ + n_out * per_out + 1      # (+1: the count of outputs needs one more octet above 16383... measured below)
                        want_over = kind == 'oversize'
                        if (want_over and rules.MAX_BLOCK_SIZE - 80 < size <= rules.MAX_BLOCK_SIZE + 8) or \
                                (not want_over and rules.MAX_BLOCK_SIZE - 160 < size <= rules.MAX_BLOCK_SIZE):
                            outs_ = [(1, W.key(j_ % 12)) for j_ in range(n_out - 1)] + [(total - (n_out - 1), W.key(a % 12))]
                            tx_ = W.make_tx(refs, outs_, signers)
                            real = len(tx_.serialize())
                            if want_over and rules.MAX_BLOCK_SIZE < real <= rules.MAX_BLOCK_SIZE + 8:
                                res.bump('probe:transaction_a_few_bytes_larger_than_a_block')
                                return tx_
                            if not want_over and rules.MAX_BLOCK_SIZE - 160 < real <= rules.MAX_BLOCK_SIZE:
                                res.bump('probe:transaction_almost_as_large_as_a_block')
                                return tx_
                return None
            if kind == 'seen_before_bad_sig':
                # a transaction the node has verified before in this run (it was pooled, or is in a block of any branch) whose
                # inputs are unspent at the head again: the same content with a signature that does not verify
                known = []
                for bid in sim.stored:
                    blk = sim.block_objs.get(bid)
                    if blk is not None:
                        known.extend(blk.transactions[1:])
                known.extend(once_pooled)
                pool_refs = set().union(*[refs_of(t) for t in ref_pool]) if ref_pool else set()
                cands = [t for t in known if t.inputs and all(r in hb.utxo for r in refs_of(t)) and not (refs_of(t) & pool_refs)]
                if not cands:
                    return None
                t = cands[a % len(cands)]
                res.bump('probe:verified_transaction_spendable_again')
                i0 = t.inputs[0]
                if a % 3 == 0:
                    sig = SECP256k1Signature(bytes([(a * 7 + j) % 251 + 1 for j in range(64)]))
                elif a % 3 == 1:
                    other = W.key((a % 11) + 1)
                    if other.pub == hb.utxo[(i0.output_reference.hash, i0.output_reference.index)][1]:
                        other = W.key(0)
                    sig = SECP256k1Signature(other.sign(rules.blank_message(t)))
                else:
                    k_ = W.key_by_pub(hb.utxo[(i0.output_reference.hash, i0.output_reference.index)][1])
                    sig = SECP256k1Signature(k_.sign(b'another message' + bytes([a % 256])))
                return Transaction([Input(i0.output_reference, sig)] + list(t.inputs[1:]), list(t.outputs))
            if base_tx is None:
                return None
            ins, outs = list(base_tx.inputs), list(base_tx.outputs)
            ref0 = (ins[0].output_reference.hash, ins[0].output_reference.index)
            v0, pub0 = hb.utxo[ref0]
            k0 = W.key_by_pub(pub0)
            if kind == 'no_outputs':
                return W.make_tx([ref0], [], [k0])
            if kind == 'out_zero':
                return W.make_tx([ref0], [(v0, W.key(a % 12)), (0, k0)], [k0])
            if kind == 'over_max':
                return W.make_tx([ref0], [(rules.MAX_SASHIMI + 1, k0)], [k0])
            if kind == 'overspend':
                return W.make_tx([ref0], [(v0 + 1, k0)], [k0])
            if kind == 'dup_ref':
                return W.make_tx([ref0, ref0], [(2 * v0, k0)], [k0, k0])
            if kind == 'null_ref':
                return W.make_tx([ref0, (rules.ZERO32, 0)], [(v0, k0)], [k0, k0])
            if kind == 'placeholder':
                return W.make_tx([ref0], [(v0, k0)], [SignableEquivalent()])
            if kind == 'coinbasedata_sig':
                return W.make_tx([ref0], [(v0, k0)], [CoinbaseData(1, b'zz')])
            if kind == 'wrong_key':
                other = W.key((a % 11) + 1) if W.key((a % 11) + 1).pub != pub0 else W.key(0)
                return W.make_tx([ref0], [(v0, other)], [other])
            if kind == 'missing':
                return W.make_tx([(bytes([a % 256]) * 32, 1)], [(5, k0)], [k0])
            return None

        pending_submissions = []

        def settle_submissions():
            nonlocal pending_submissions
            if not pending_submissions:
                return True
            w.settle(2500 + 300 * len(pending_submissions))
            hb = head()
            # arrival order among overlapped submissions is the node's; the reference admits in pool order
            pool_now = list(w.cm.transaction_pool)
            ids_now = [rules.tx_id(t) for t in pool_now]
            known = {rules.tx_id(t) for t in ref_pool}
            cand = {rules.tx_id(t): (t, kind, c) for (t, kind, c) in pending_submissions}
            # process in the order the node admitted them, then the ones it did not admit
            order = [i for i in ids_now if i in cand and i not in known] + [i for i in cand if i not in ids_now]
            for tid in order:
                tx, kind, conn = cand[tid]
                if tid in known:
                    continue
                ok = valid_at(tx, hb)
                taken = set().union(*[refs_of(t) for t in ref_pool]) if ref_pool else set()
                compatible = not (refs_of(tx) & taken)
                admitted = tid in ids_now
                lost = conn is None or conn.closed
                if admitted and not (ok and compatible):
                    res.violate(PROP, 'C13/bad-transaction-admitted',
                                'a %s transaction was admitted (valid at head: %s, compatible with the pool: %s)' % (kind, ok, compatible))
                    return False
                if ok and compatible and not admitted and not lost:
                    res.violate(PROP, 'C13/valid-transaction-not-admitted', 'a valid, new, non-conflicting transaction (%s) is not in the pool' % kind)
                    return False
                if admitted:
                    ref_pool.append(tx)
                    once_pooled.append(tx)
                    known.add(tid)
                    res.bump('admitted')
                    res.distinct.add('admit:%s:pool%d' % (kind, min(len(ref_pool), 4)))
                else:
                    res.bump('refused')
                    res.distinct.add('refuse:%s:pool%d' % (kind, min(len(ref_pool), 4)))
            pending_submissions = []
            return check_pool('after submissions')

        def deliver_block(blk, peer, route='relay'):
            # route 'response': the block arrives as the answer to a request (bulk download path: no in-chain validation,
            # the new state is installed as unvalidated) - the head changes all the same
            c = w.conn(peer)
            if c is None:
                return False
            if route == 'relay':
                c.send(M.DataMessage(M.DATA_BLOCK, W.roundtrip(blk)))
            else:
                c.offer_block(W.roundtrip(blk))     # bulk-download route: announce, be asked, serve
            if route != 'relay':
                res.bump('probe:head_change_through_bulk_download_path')
            w.settle(3000)
            return True

        def expect_block_accepted(blk):
            bid = rules.block_id(blk)
            if bid in w.node_ids() and bid not in chain.blocks:
                sim.cs = sim.cs.add_block_no_validation(blk)
                chain.add(blk)
                sim.stored.append(bid)
                sim.block_objs[bid] = blk
                return True
            return bid in chain.blocks

        def after_head_change(old_head, what):
            nonlocal ref_pool
            hb = head()
            if hb.id != old_head.id:
                res.bump('probe:head_changed')
                before = len(ref_pool)
                ref_pool = [t for t in ref_pool if valid_at(t, hb)]
                if len(ref_pool) < before:
                    res.bump('probe:evicted_on_head_change')
                if ref_pool:
                    res.bump('probe:survived_head_change')
            return check_pool(what)

        for op in script['ops']:
            if res.violations or node.loop_error:
                break
            kind = op['op']
            if kind == 'submit':
                tx = make_tx(op['kind'], op)
                if tx is None:
                    continue
                try:
                    tx = Transaction.deserialize(tx.serialize())
                except Exception:
                    continue
                c = w.conn(op.get('peer', 0))
                if c is None:
                    continue
                c.send(M.DataMessage(M.DATA_TRANSACTION, tx))
                pending_submissions.append((tx, op['kind'], c))
                res.bump('submitted:' + op['kind'])
                if not op.get('overlap'):
                    if not settle_submissions():
                        break
                continue
            if not settle_submissions():
                break
            old = head()
            if kind == 'extend':
                chosen = [t for n, t in enumerate(ref_pool) if op.get('mask', 255) >> (n % 8) & 1]
                view = W.view_at(sim.cs, old.id)
                ts = min(old.ts + max(1, op.get('dt', 1)), w.node_clock() + 10)
                if ts <= old.ts:
                    continue
                blk = W.mine_honest(view, chosen, W.key(op.get('miner', 0) % 12), ts)
                if not deliver_block(blk, op.get('peer', 0), op.get('route', 'relay')):
                    continue
                if not expect_block_accepted(blk):
                    res.bump('block_not_accepted')
                    continue
                if chosen:
                    res.bump('probe:pooled_transactions_mined')
                if not after_head_change(old, 'after an extension'):
                    break
            elif kind == 'side':
                anc = old
                for _ in range(op.get('depth', 1)):
                    if anc.parent is not None and anc.parent.parent is not None:
                        anc = anc.parent
                tip = anc
                for j in range(op.get('len', 1)):
                    txs = []
                    if j == 0:
                        taken = set()
                        txs, _, _ = sim.build_txs(tip, [op.get('spec', {})], taken)
                    view = W.view_at(sim.cs, tip.id)
                    ts = tip.ts + 1 + j
                    if ts > w.node_clock() + 10:
                        break
                    blk = W.mine_honest(view, txs, W.key((op.get('miner', 0) + j) % 12), ts)
                    if rules.block_id(blk) in chain.blocks:
                        tip = chain.blocks[rules.block_id(blk)]
                        continue
                    before_head = head()
                    if not deliver_block(blk, op.get('peer', 0), op.get('route', 'relay')):
                        break
                    if not expect_block_accepted(blk):
                        res.bump('block_not_accepted')
                        break
                    tip = chain.blocks[rules.block_id(blk)]
                    if head().id != before_head.id and tip.parent.id != before_head.id:
                        res.bump('probe:reorganisation')
                    if not after_head_change(before_head, 'after a side-chain block'):
                        break
                if res.violations:
                    break
            elif kind == 'race':
                # the miner thread installs a new head WHILE the network thread admits a transaction: the other thread is
                # let in at a seam inside admission (right after the in-chain check returns) if and only if the chain
                # manager's lock is free at that instant, otherwise it has to wait until admission is over
                import skepticoin.networking.manager as mg
                hb = old
                taken = set().union(*[refs_of(t) for t in ref_pool]) if ref_pool else set()
                txs, _, _ = sim.build_txs(hb, [op.get('spec', {})], taken)
                if not txs:
                    continue
                tx = txs[0]
                r0 = sorted(refs_of(tx))[0]
                v0, pub0 = hb.utxo[r0]
                if v0 <= 0:
                    continue            # (an output worth nothing cannot fund the rival payment)
                if op.get('variant') == 'same_mined':
                    mined = [tx]
                else:
                    mined = [W.make_tx([r0], [(v0, W.key(4))], [W.key_by_pub(pub0)])]
                ts = min(hb.ts + 1, w.node_clock() + 10)
                if ts <= hb.ts:
                    continue
                blk = W.mine_honest(W.view_at(sim.cs, hb.id), mined, W.key(op.get('miner', 0) % 12), ts)
                cm = w.cm
                ran = {'done': False, 'nested': False}

                def other_thread():
                    if ran['done']:
                        return
                    ran['done'] = True
                    cs2 = cm.coinstate.add_block(blk, w.node_clock())
                    cm.set_coinstate(cs2)

                orig_v = mg.validate_non_coinbase_transaction_in_coinstate

                def seam(*a, **kw):
                    r = orig_v(*a, **kw)
                    if not ran['done'] and not cm.lock.locked():
                        ran['nested'] = True
                        other_thread()
                    return r
                mg.validate_non_coinbase_transaction_in_coinstate = seam
                w.k.current = node
                import skepticoin.blockstore as bs
                bs.DefaultBlockStore.instance = node.store
                try:
                    admitted = cm.add_transaction_to_pool(tx)
                finally:
                    mg.validate_non_coinbase_transaction_in_coinstate = orig_v
                try:
                    other_thread()          # if it had to wait for the lock it runs now
                finally:
                    w.k.current = None
                res.bump('races')
                if ran['nested']:
                    res.bump('probe:other_thread_entered_during_admission')
                if not expect_block_accepted(blk):
                    break
                # reference: whatever the interleaving, the transaction is not valid at the new head
                ref_pool = [t for t in ref_pool if valid_at(t, head())]
                if not check_pool('after a head change racing with an admission'):
                    break
            elif kind == 'bad_block':
                made = None
                try:
                    made = forgeries.build(sim, op['kind'], old, dict(op, dt=1, clock=0))
                except (W.Unminable, ValueError, OverflowError):
                    made = None
                if made is None:
                    continue
                blk, _ = made
                if blk.header.summary.timestamp > w.node_clock() + 10:
                    continue
                deliver_block(blk, op.get('peer', 0))
                res.bump('probe:rejected_block_between')
                if rules.block_id(blk) in w.node_ids():
                    res.bump('other_property_anomaly')
                    break
                if head().id != old.id:
                    # documented behaviour: a rejected relay rolls a node that holds unvalidated (bulk-downloaded) blocks back
                    # to its last validated state - a head change like any other as far as the pool is concerned
                    res.bump('probe:rollback_to_last_validated_state')
                if not after_head_change(old, 'after a rejected block'):
                    break
        if not res.violations:
            settle_submissions()
    finally:
        w.close()
    res.digest = w.trace.digest()
    return res


def describe():
    return {
        'rule': 'one run = one seeded interleaving of submissions and head changes on one real node; distinct = '
                '(submission kind x admitted/refused x pool size capped at 4); non-trivial = at least one submission judged',
        'components': {'real': ['ChainManager.add_transaction_to_pool / set_coinstate / pool cleanup', 'handle_transaction_received, handle_block_received',
                                'consensus transaction validators', 'LocalPeer event loop, MessageReceiver, codecs'],
                       'stub': ['TCP, selector, clock, randomness', 'Bots as peers', 'scrypt stand-in']},
        'assumptions': ['order inside the pool is not compared', 'a submission whose connection the node closed carries no admission expectation'],
        'expected_probes': ['admitted', 'refused', 'probe:head_changed', 'probe:evicted_on_head_change', 'probe:survived_head_change',
                            'probe:pooled_transactions_mined', 'probe:reorganisation', 'probe:rejected_block_between', 'races'],
    }
