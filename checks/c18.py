"""C18 — checkpoints are enforced and the real network's recorded blocks stay valid (real scrypt)."""
import os

from simkit.core import Streams, Result, Trace
from seams import env

PROP = 'C18'
LEVEL = 'exploration'
BUDGET = {
    'quick': {'runs': 96, 'wall': 170, 'chunk': 2},
    'thorough': {'runs': 400, 'wall': 1700, 'chunk': 1},
}
MANIFEST = {
    'engine': 'node-sim, recorded workload',
    'level': 'exploration',
    'text': 'Thin for this technique (fixed recorded workload), claimed with that caveat. (a) A scripted peer serves the '
            'built-in genesis and the five recorded real blocks to a real node under seeded delivery schedules '
            '(fragmentation, latency, order incl. child-before-parent and duplicates): once by bulk download under the real '
            'checkpoint horizon, once relayed with the horizon patched to 0 so that every in-chain rule runs on them with the '
            'REAL scrypt; ids must equal the recorded names and the built-in genesis checkpoint, re-encoding must equal the '
            'recorded bytes, and the evidence recomputed by the repo must equal both the recorded evidence and an '
            'independent computation (own byte parser, hashlib/scrypt called directly). (b) Every run sweeps ALL 327 '
            'checkpointed heights: a forged block claiming height h on a parent at h-1 is rejected by full validation and '
            'leaves state (and, through the relay path for a seeded sample, the store) unchanged, while the same forgery at '
            'the non-checkpointed neighbours h-1 and h+1 is accepted unvalidated (the documented design), which shows the '
            'rejection is the checkpoint\'s doing; the accepting branch is exercised with the real genesis and with a '
            'synthetic table entry. The 327 recorded table entries must still be present.'
            ' Hiccup competitor_first installs a rival sibling (trivial stated target, bulk route) before real blocks h and h+1 are relayed. One node per run, whose head is on a trusted tip at H+3, bulk-downloads a side branch from a lower trusted tip across a checkpointed height H divisible by 10,000 (the heights that route compares): no block of it at or above H may enter chain state.',
    'note': 'Trusted: golden copy of the checkpoint table and of the recorded blocks (refmodel/golden.py, world/realchain), '
            'python scrypt/hashlib, own evidence computation (refmodel/evidence.py). Bulk download compares checkpoints only at '
            'heights divisible by 10,000 (documented design): recorded as an observation, not judged.',
}


def generate(seed, tier):
    rng = Streams(seed).get('gen')
    order = list(range(1, 6))
    mode = rng.choice(['relay', 'relay', 'bulk'])
    hiccups = []
    if mode == 'relay':
        for _ in range(rng.randint(0, 3)):
            hiccups.append({'kind': rng.choice(['child_first', 'duplicate', 'other_peer', 'competitor_first', 'competitor_first']),
                            'at': rng.randrange(1, 6)})
    return {'config': {'mode': mode, 'hiccups': hiccups, 'relay_sample': [rng.randrange(327) for _ in range(4)],
                       'variant': rng.randrange(1000), 'profile': {'lat_max': rng.choice([5, 50, 200])}},
            'ops': [{'op': 'serve', 'h': h} for h in order] + [{'op': 'checkpoints'}]}


def _load_recorded():
    from refmodel import golden
    import hashlib
    out = {}
    repo_dir = os.path.join(env.REPO, 'tests', 'testdata', 'chain')
    mine = os.path.join(os.path.dirname(os.path.dirname(os.path.abspath(__file__))), 'world', 'realchain')
    for name in golden.RECORDED:
        p = os.path.join(repo_dir, name)
        if not os.path.isfile(p):
            p = os.path.join(mine, name)
        raw = open(p, 'rb').read()
        out[int(name.split('-')[0])] = (name, raw, hashlib.sha256(raw).hexdigest() == golden.RECORDED_SHA256[name])
    return out


def run_real_chain(script, res, trace):
    from refmodel import golden, evidence as EV
    from engines.ledger import reset_horizon
    from seams.net import Kernel, SimNode, Shims
    from seams.bots import Bot
    from skepticoin.coinstate import CoinState
    from skepticoin.datatypes import Block
    from skepticoin.genesis import genesis_block_data
    from skepticoin.humans import human
    from skepticoin.networking import messages as M
    import skepticoin.consensus as consensus
    import hashlib

    cfg = script['config']
    rec = _load_recorded()
    # golden pins
    if hashlib.sha256(genesis_block_data).hexdigest() != golden.GENESIS_SHA256:
        res.violate(PROP, 'C18/genesis-bytes-changed', 'the built-in genesis block is not the real network\'s genesis')
        return
    g = Block.deserialize(genesis_block_data)
    if human(g.hash()) != golden.GENESIS_ID or human(EV.sha256d(EV.split_block(genesis_block_data)['header_bytes'])) != golden.GENESIS_ID:
        res.violate(PROP, 'C18/genesis-id-changed', 'genesis id %s' % human(g.hash()))
        return
    raws = {0: genesis_block_data}
    for h, (name, raw, same) in rec.items():
        if not same:
            res.violate(PROP, 'C18/recorded-block-bytes-changed', 'recorded block %s differs from the real network\'s block' % name)
            return
        raws[h] = raw
    blocks = {}
    for h, (name, raw, _) in rec.items():
        b = Block.deserialize(raw)
        blocks[h] = b
        want = name.split('-')[1]
        if human(b.hash()) != want or human(EV.sha256d(EV.split_block(raw)['header_bytes'])) != want:
            res.violate(PROP, 'C18/recorded-block-id-changed', 'block %d decodes to id %s, the real network knows it as %s' % (
                h, human(b.hash()), want))
            return
        if b.serialize() != raw:
            res.violate(PROP, 'C18/recorded-block-reencodes-differently', 'block %d does not re-encode to its recorded bytes' % h)
            return
    relay = cfg.get('mode') == 'relay'
    # before the real chain is validated, the same process builds and validates proof-of-work evidence on ANOTHER branch
    # from the same genesis (fast stand-in hash): whatever the node remembers from that must not leak into the real chain
    env.use_fast_scrypt(True)
    reset_horizon(True)
    from world import ledger as W
    alt = CoinState.zero()
    for j in range(1, 5):
        ab = consensus.construct_block_for_mining(alt, [], W.key(j).pk, alt.head().timestamp + 60 + cfg.get('variant', 0) % 50, b'alt', j)
        alt = alt.add_block_no_validation(ab)
        for nn in range(3):
            consensus.construct_block_for_mining(alt, [], W.key(j).pk, alt.head().timestamp + 61, b'', nn)
    res.bump('alternative_branch_evidence_built')
    env.use_fast_scrypt(False)          # the real scrypt
    reset_horizon(low=relay)
    k = Kernel(script.get('seed', 0), cfg.get('profile'))
    sh = Shims(k)
    sh.install()
    try:
        node = SimNode(k, 'N', '10.0.0.1')
        serve = {'blocks': {blocks[h].hash(): blocks[h] for h in blocks},
                 'chain': [g.hash()] + [blocks[h].hash() for h in sorted(blocks)]}
        bots = [Bot(k, 'srv%d' % i, '10.0.1.%d' % (i + 1), {'serve': serve if not relay else None, 'my_port': 0}) for i in range(2)]
        node.boot(CoinState.zero(), peers=[])
        for b in bots:
            b.connect(('10.0.0.1', 2412))
        k.run(k.now + 3000)
        if relay:
            # independent evidence for every recorded block, real scrypt
            for h in sorted(blocks):
                parts = EV.split_block(raws[h])
                ev = EV.evidence(parts['summary_bytes'], h, lambda x: raws[x], parts['txlist_bytes'])
                res.bump('real_scrypt_calls')
                if ev != parts['evidence']:
                    res.violate(PROP, 'C18/recorded-evidence-differs-from-independent-computation',
                                'block %d: independent evidence differs from the recorded one' % h)
                    return
            plan = []
            for h in sorted(blocks):
                for hc in cfg.get('hiccups', []):
                    if hc['at'] == h and hc['kind'] == 'child_first' and h + 1 in blocks:
                        plan.append((h + 1, 0, 'orphan'))
                for hc in cfg.get('hiccups', []):
                    if hc['at'] == h and hc['kind'] == 'competitor_first' and h <= 4:
                        plan.append((h, 1, 'competitor'))
                plan.append((h, 0, 'in-order'))
                for hc in cfg.get('hiccups', []):
                    if hc['at'] == h and hc['kind'] == 'duplicate':
                        plan.append((h, 1, 'duplicate'))
            competitors = set()
            for h, peer, why in plan:
                conns = [c for c in bots[peer].conns if not c.closed]
                if not conns:
                    continue
                if why == 'competitor':
                    # a sibling of real block h reaches the node first (bulk route: installed without in-chain validation, it
                    # states the trivial target); it is the head at that height when the real blocks h and h+1 arrive
                    view = CoinState.zero()
                    for x in range(1, h):
                        view = view.add_block_no_validation(blocks[x])
                    par = view.head()
                    from skepticoin.datatypes import Transaction as _T, Input as _I, Output as _O, OutputReference as _R
                    from skepticoin.signing import CoinbaseData as _CD
                    cb = _T([_I(_R(b'\x00' * 32, 0), _CD(h, b'rival'))], [_O(10 * 100_000_000, W.key(h % 12).pk)])
                    rival = W.seal(view, h, par.hash(), par.timestamp + 1, W.TRIVIAL_TARGET, [cb], fake_scrypt=b'rival%d' % h)
                    conns[-1].offer_block(rival)
                    k.run(k.now + 2500)
                    if rival.hash() in node.lp.chain_manager.coinstate.block_by_hash:
                        competitors.add(rival.hash())
                        res.bump('probe:competitor_installed_before_real_block')
                    trace.add('relay', h, why)
                    continue
                conns[-1].send(M.DataMessage(M.DATA_BLOCK, blocks[h]))
                k.run(k.now + 2500)
                res.bump('real_scrypt_calls')
                trace.add('relay', h, why)
                if node.loop_error:
                    res.violate(PROP, 'C18/exception-left-event-loop', '%s: %s' % node.loop_error[:2])
                    return
                cs = node.lp.chain_manager.coinstate
                if why != 'orphan' and blocks[h].hash() not in cs.block_by_hash:
                    # which rule? ask the validator directly for the message
                    try:
                        consensus.validate_block_by_itself(blocks[h], int(node.clock_s()))
                        consensus.validate_block_in_coinstate(blocks[h], cs)
                        why_not = 'no rule named'
                    except Exception as e:
                        why_not = '%s: %s' % (type(e).__name__, e)
                    res.violate(PROP, 'C18/recorded-block-rejected',
                                'real block %d relayed with every in-chain rule in force (real scrypt) is not accepted: %s' % (h, why_not))
                    return
        else:
            k.run(k.now + 90_000, stop=lambda: node.lp.chain_manager.coinstate.head().height >= 5)
            k.run(k.now + 2000)
            trace.add('bulk', node.lp.chain_manager.coinstate.head().height)
        if node.loop_error:
            res.violate(PROP, 'C18/exception-left-event-loop', '%s: %s' % node.loop_error[:2])
            return
        cs = node.lp.chain_manager.coinstate
        if cs.head().height != 5 or cs.current_chain_hash != blocks[5].hash():
            res.violate(PROP, 'C18/real-chain-not-adopted', 'mode %s: head height %d after being served the recorded chain' % (
                cfg.get('mode'), cs.head().height))
            return
        for h in blocks:
            if cs.by_height_at_head()[h].hash() != blocks[h].hash():
                res.violate(PROP, 'C18/real-chain-not-adopted', 'height %d holds another block' % h)
                return
        if relay:
            rows = {r[0] for r in node.store.sql('select block_hash from chain')}
            if rows != {g.hash()} | {b.hash() for b in blocks.values()} | competitors:
                res.violate(PROP, 'C18/real-chain-not-stored', 'store rows differ from the recorded chain')
                return
            # evidence recomputed by the repo with the real scrypt equals the recorded evidence
            for h in sorted(blocks):
                ev = consensus.construct_pow_evidence(cs, blocks[h].header.summary, h, blocks[h].transactions)
                res.bump('real_scrypt_calls')
                parts = EV.split_block(raws[h])
                if (ev.summary_hash, ev.chain_sample, ev.block_hash) != parts['evidence']:
                    res.violate(PROP, 'C18/recomputed-evidence-differs-from-recorded', 'block %d' % h)
                    return
        res.bump('real_chain_runs:' + cfg.get('mode'))
        res.virtual_s += k.now / 1000.0
        res.events += k.steps
    finally:
        try:
            node.store.close()
        except Exception:
            pass
        sh.uninstall()
        env.use_fast_scrypt(True)
        reset_horizon(False)
    res.distinct.add('real:%s:%s' % (cfg.get('mode'), sorted((h['kind'], h['at']) for h in cfg.get('hiccups', []))))


def run_checkpoints(script, res, trace):
    import immutables
    from refmodel import golden, rules
    from engines.ledger import reset_horizon, cheap_fp
    from world import ledger as W
    import skepticoin.consensus as consensus
    from skepticoin.coinstate import CoinState
    from skepticoin.balances import uto_apply_block
    from skepticoin.datatypes import Block, BlockHeader, BlockSummary, PowEvidence, OutputReference, Input, Output, Transaction
    from skepticoin.signing import CoinbaseData
    from skepticoin.genesis import genesis_block_data
    from skepticoin.humans import human, computer

    reset_horizon(False)
    env.use_fast_scrypt(True)
    v = script['config'].get('variant', 0)
    table = consensus.KNOWN_HASHES
    for h, want in golden.CHECKPOINTS.items():
        if table.get(h) != want:
            res.violate(PROP, 'C18/checkpoint-entry-changed', 'the built-in checkpoint for height %d is %s, the real chain has %s' % (
                h, table.get(h), want))
            return
    if consensus.MAX_KNOWN_HASH_HEIGHT < max(golden.CHECKPOINTS):
        res.violate(PROP, 'C18/checkpoint-entry-changed', 'horizon lowered to %d' % consensus.MAX_KNOWN_HASH_HEIGHT)
        return

    def block_at(height, prev, ts, miner, data=b''):
        cb = Transaction([Input(OutputReference(rules.ZERO32, 0), CoinbaseData(height, data))],
                         [Output(rules.subsidy(height), W.key(miner % 12).pk)])
        summ = BlockSummary(height, prev, consensus.calc_merkle_root_hash([cb]), ts, W.TRIVIAL_TARGET, v % (1 << 32))
        return Block(BlockHeader(summ, PowEvidence(b'\x01' * 32, b'\x02' * 32, b'\x03' * 32)), [cb])

    def base_at(height):
        # a trusted tip at `height` with the whole never-validated history below it (O(1) index)
        cs, T, _f = W.hollow_base_far(height, W.TRIVIAL_TARGET, n_outputs=2)
        W._BASE_CACHE.pop(('far', height, W.TRIVIAL_TARGET, 2, 5_000_000_000), None)
        return cs, T

    now = W.BASE_TS + 1000
    for h in sorted(table):
        if h == 0:
            continue
        if h > consensus.MAX_KNOWN_HASH_HEIGHT:
            continue
        for claimed, expect_reject in ((h, True), (h - 1, False), (h + 1, False)):
            if claimed in table and not expect_reject:
                continue
            if claimed < 1:
                continue
            if claimed > consensus.MAX_KNOWN_HASH_HEIGHT and (claimed - 1) % rules.RETARGET_PERIOD == 0:
                continue
            cs, T = base_at(claimed - 1)
            fp = cheap_fp(cs)
            # the candidate is assembled by the node's own path and satisfies EVERY in-chain rule (target, time, height,
            # evidence, reward): at a checkpointed height only the checkpoint comparison can refuse it
            blk = consensus.construct_block_for_mining(cs, [], W.key((2 + v) % 12).pk, W.BASE_TS + 5 + v % 100, b'', v % 1000)
            if v % 2:
                blk = Block.deserialize(blk.serialize())
            try:
                cs2 = cs.add_block(blk, now)
                accepted = True
            except Exception:
                accepted = False
            res.bump('checkpoint_candidates')
            if expect_reject and accepted:
                res.violate(PROP, 'C18/wrong-block-accepted-at-checkpoint',
                            'a fully rule-abiding block with a foreign id was accepted at checkpointed height %d' % claimed)
                return
            if expect_reject and cheap_fp(cs) != fp:
                res.violate(PROP, 'C18/state-changed-by-rejected-checkpoint-block', 'height %d' % claimed)
                return
            if not expect_reject and not accepted:
                res.bump('probe:neighbour_rejected')
                res.violate(PROP, 'C18/checkpoint-neighbour-rejected',
                            'a rule-abiding block at non-checkpointed height %d was rejected: the sweep cannot attribute '
                            'rejections at checkpointed heights to the checkpoint' % claimed)
                return
        # no alternative history can PASS a checkpoint either: a block on the parent at h-1 that claims h+1
        cs, T = base_at(h - 1)
        skip = block_at(h + 1, T.hash(), W.BASE_TS + 5, 3 + v, b'skip')
        try:
            cs.add_block(skip, now)
            res.violate(PROP, 'C18/checkpoint-skipped', 'a block on a parent at height %d claiming height %d (skipping the checkpointed '
                        'height %d) was accepted' % (h - 1, h + 1, h))
            return
        except Exception:
            pass
        res.bump('checkpoint_heights_swept')
    # the accepting branch: real genesis, altered genesis, synthetic table entry
    e = CoinState.empty()
    g = Block.deserialize(genesis_block_data)
    try:
        e.add_block(g, g.timestamp + 5)
    except Exception as ex:
        res.violate(PROP, 'C18/right-block-rejected-at-checkpoint', 'the real genesis block is rejected: %s' % ex)
        return
    bad = bytearray(genesis_block_data)
    bad[-1] ^= 1
    gb = Block.deserialize(bytes(bad))
    try:
        gb2 = Block(BlockHeader(BlockSummary(0, rules.ZERO32, consensus.calc_merkle_root_hash(gb.transactions), g.timestamp,
                                             W.TRIVIAL_TARGET, 0), g.header.pow_evidence), gb.transactions)
        e.add_block(gb2, g.timestamp + 5)
        res.violate(PROP, 'C18/wrong-block-accepted-at-checkpoint', 'an alternative genesis block was accepted at height 0')
        return
    except Exception:
        pass
    hs = 777 + (v % 400)
    cs, T = base_at(hs - 1)
    right = consensus.construct_block_for_mining(cs, [], W.key(3).pk, W.BASE_TS + 9, b'', 1)
    wrong = consensus.construct_block_for_mining(cs, [], W.key(4).pk, W.BASE_TS + 9, b'', 2)
    saved = consensus.KNOWN_HASHES
    consensus.KNOWN_HASHES = dict(saved)
    consensus.KNOWN_HASHES[hs] = human(right.hash())
    try:
        try:
            cs.add_block(right, now)
        except Exception as ex:
            res.violate(PROP, 'C18/right-block-rejected-at-checkpoint', 'the block whose id equals the table entry is rejected: %s' % ex)
            return
        try:
            cs.add_block(wrong, now)
            res.violate(PROP, 'C18/wrong-block-accepted-at-checkpoint', 'synthetic checkpoint at %d not enforced' % hs)
            return
        except Exception:
            pass
        res.bump('probe:accepting_branch')
    finally:
        consensus.KNOWN_HASHES = saved
    # a seeded sample of checkpointed heights through the relay path with the real store
    from seams.net import Kernel, SimNode, Shims
    from seams.bots import Bot
    from skepticoin.networking import messages as M
    heights = sorted(h for h in table if 0 < h <= consensus.MAX_KNOWN_HASH_HEIGHT)
    for idx in script['config'].get('relay_sample', [])[:4]:
        h = heights[idx % len(heights)]
        # the node's managers walk the by-height index (block locator): give it the full hollow base, not the bare one
        cs, T, _f = W.hollow_base(h - 1, W.TRIVIAL_TARGET, n_outputs=2)
        W._BASE_CACHE.pop((h - 1, W.TRIVIAL_TARGET, 2, 5_000_000_000), None)
        k = Kernel(script.get('seed', 0) + h, script['config'].get('profile'))
        sh = Shims(k)
        sh.install()
        try:
            node = SimNode(k, 'N', '10.0.0.1')
            node.skew_ms = int((W.BASE_TS + 1000 - 1_700_100_000) * 1000)
            bot = Bot(k, 'bot', '10.0.1.1', {'my_port': 0})
            node.boot(cs, peers=[])
            c = bot.connect(('10.0.0.1', 2412))
            k.run(k.now + 2500)
            rows0 = {r[0] for r in node.store.sql('select block_hash from chain')}
            blk = block_at(h, T.hash(), W.BASE_TS + 5, 5, b'relayed')
            c.send(M.DataMessage(M.DATA_BLOCK, blk))
            k.run(k.now + 3000)
            # ... and one that claims h+1 on the same parent, jumping over the checkpointed height
            skip = block_at(h + 1, T.hash(), W.BASE_TS + 6, 6, b'skips')
            live = [x for x in bot.conns if not x.closed and x.hello_in]
            if not live:
                live = [bot.connect(('10.0.0.1', 2412))]
                k.run(k.now + 2500)
            live[-1].send(M.DataMessage(M.DATA_BLOCK, skip))
            k.run(k.now + 3000)
            if skip.hash() in node.lp.chain_manager.coinstate.block_by_hash:
                res.violate(PROP, 'C18/checkpoint-skipped', 'a relayed block on a parent at height %d claiming height %d entered chain state: '
                            'the checkpoint at %d was jumped over' % (h - 1, h + 1, h))
                return
            res.bump('checkpoint_relays')
            if node.loop_error:
                res.violate(PROP, 'C18/exception-left-event-loop', '%s: %s' % node.loop_error[:2])
                return
            if blk.hash() in node.lp.chain_manager.coinstate.block_by_hash:
                res.violate(PROP, 'C18/wrong-block-accepted-at-checkpoint', 'relayed block with a foreign id entered state at height %d' % h)
                return
            if {r[0] for r in node.store.sql('select block_hash from chain')} != rows0:
                res.violate(PROP, 'C18/store-changed-by-rejected-checkpoint-block', 'height %d' % h)
                return
        finally:
            try:
                node.store.close()
            except Exception:
                pass
            sh.uninstall()
    # the bulk-download route compares checkpoints at heights divisible by 10,000: an alternative branch that is NOT the head
    # while it is being downloaded (the node's head is higher, on another trusted tip) must not get past such a height either
    import immutables as _imm
    tens = [h for h in heights if h % 10_000 == 0]
    for idx in script['config'].get('relay_sample', [])[:1]:
        if not tens:
            break
        H = tens[idx % len(tens)]
        csA, TA, _f = W.hollow_base_far(H + 3, W.TRIVIAL_TARGET, salt=1 + v)
        csB, TB, _f = W.hollow_base_far(H - 2, W.TRIVIAL_TARGET, n_outputs=8, value_each=4_000_000_000, salt=2000 + v)
        ta, tb = TA.hash(), TB.hash()
        from skepticoin.coinstate import CoinState as _CS
        cs = _CS(block_by_hash=csA.block_by_hash.set(tb, TB),
                 unspent_transaction_outs_by_hash=csA.unspent_transaction_outs_by_hash.set(tb, csB.unspent_transaction_outs_by_hash[tb]),
                 block_by_height_by_hash=csA.block_by_height_by_hash.set(tb, csB.block_by_height_by_hash[tb]),
                 heads=csA.heads.set(tb, TB), current_chain_hash=ta)
        k = Kernel(script.get('seed', 0) + H + 1, script['config'].get('profile'))
        sh = Shims(k)
        sh.install()
        try:
            node = SimNode(k, 'N', '10.0.0.1')
            node.skew_ms = int((W.BASE_TS + 1000 - 1_700_100_000) * 1000)
            bot = Bot(k, 'bot', '10.0.1.1', {'my_port': 0})
            node.boot(cs, peers=[])
            c = bot.connect(('10.0.0.1', 2412))
            k.run(k.now + 2500)
            rows0 = {r[0] for r in node.store.sql('select block_hash from chain')}
            prev, alt = tb, []
            for j, hh in enumerate(range(H - 1, H + 6)):
                b_ = block_at(hh, prev, W.BASE_TS + 5 + j, 5 + j, b'alt-bulk')
                alt.append(b_)
                prev = b_.hash()
            for b_ in alt:
                live = [x for x in bot.conns if not x.closed and x.hello_in]
                if not live:
                    live = [bot.connect(('10.0.0.1', 2412))]
                    k.run(k.now + 2500)
                    live = [x for x in bot.conns if not x.closed and x.hello_in]
                    if not live:
                        break
                live[-1].offer_block(b_)
                k.run(k.now + 1500)
            k.run(k.now + 2000)
            res.bump('checkpoint_bulk_side_branch_runs')
            if node.loop_error:
                res.violate(PROP, 'C18/exception-left-event-loop', '%s: %s' % node.loop_error[:2])
                return
            state = node.lp.chain_manager.coinstate
            passed = [b_.height for b_ in alt if b_.height >= H and b_.hash() in state.block_by_hash]
            if passed:
                res.violate(PROP, 'C18/wrong-block-accepted-at-checkpoint',
                            'bulk download of a side branch (the head stays on another tip at height %d): blocks at heights %s of an '
                            'alternative history with a foreign id at checkpointed height %d are in chain state' % (H + 3, passed, H))
                return
            if state.head().height > H + 3 or state.current_chain_hash != ta:
                res.violate(PROP, 'C18/wrong-block-accepted-at-checkpoint', 'the node moved to a history that passes checkpoint %d with a foreign id' % H)
                return
            if {r[0] for r in node.store.sql('select block_hash from chain')} - rows0:
                res.violate(PROP, 'C18/store-changed-by-rejected-checkpoint-block', 'bulk side branch at %d' % H)
                return
        finally:
            try:
                node.store.close()
            except Exception:
                pass
            sh.uninstall()
    res.distinct.add('sweep:%d' % v)
    trace.add('sweep', res.stats.get('checkpoint_heights_swept', 0))


def execute(script):
    env.setup()
    res = Result()
    trace = Trace()
    try:
        run_real_chain(script, res, trace)
        if not res.violations:
            run_checkpoints(script, res, trace)
    finally:
        env.use_fast_scrypt(True)
    res.sample = {'mode': script['config'].get('mode'), 'heights_swept': res.stats.get('checkpoint_heights_swept', 0)}
    res.digest = trace.digest()
    return res


def describe():
    return {
        'rule': 'one run = the recorded real chain served once (seeded schedule, bulk or relayed with real scrypt) + one sweep of '
                'all 327 checkpointed heights with a seeded forgery variant; distinct = (mode, hiccups) and sweep variant; '
                'non-trivial = real chain adopted / all heights swept',
        'components': {'real': ['consensus validation incl. checkpoint branch', 'REAL scrypt (skepticoin.hash.scrypt) in relay mode',
                                'LocalPeer bulk download and relay handlers', 'BlockStore (real SQLite)', 'cheating.KNOWN_HASHES unpatched in the sweep'],
                       'stub': ['simulated network, Bots', 'horizon patched to 0 in relay mode so that the in-chain rules run on blocks 1-5',
                                'parents at h-1 are bare trusted blocks']},
        'assumptions': ['golden copies of table and recorded blocks come from the pinned tree'],
        'expected_probes': ['checkpoint_heights_swept', 'checkpoint_relays', 'probe:accepting_branch', 'real_scrypt_calls',
                            'real_chain_runs:relay', 'real_chain_runs:bulk'],
    }
