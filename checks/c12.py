"""C12 — mining: assembled blocks are valid, pay subsidy plus fees to the miner's key, and are adopted."""
import json
from types import SimpleNamespace

from simkit.core import Streams, Result
from seams import env
from checks import ledger_common as LC

PROP = 'C12'
LEVEL = 'exploration'
BUDGET = {
    'quick': {'runs': 700, 'wall': 170, 'chunk': 4},
    'thorough': {'runs': 30000, 'wall': 1700, 'chunk': 10},
}
MANIFEST = {
    'engine': 'miner-sim',
    'level': 'exploration',
    'text': 'A real MinerWatcher (its message handlers, not its argparse start-up), one to three real Miner loops running as '
            'real threads that are parked at every queue operation and released one at a time by the seeded scheduler, a real '
            'LocalPeer with store behind the watcher, a real wallet saved through the simulated file system. Seeded scripts '
            'interleave miner steps and watcher steps with peers relaying blocks (head extensions, forks) and transactions '
            '(fees from 0 up) and with clock movement, including heads dated ahead of the node\'s clock and candidates '
            'assembled on a state older than the served one. For every candidate whose id is below target: independent '
            'verdict on the assembled block at its parent, reward = subsidy + fees to the key handed out, time after '
            'parent; after the found-block handler returns: block in the served state (head if its parent was the served '
            'head), row in the store, exactly one data message per greeted peer, fresh key taken and wallet file saved.'
            ' Peer blocks also arrive by the bulk-download route (installed unvalidated) and rejected relays make the node fall back to its last validated state while candidates are outstanding.'
            ' A quarter of the runs use a short chain on the real genesis block (every sampled ancestor is a different block); a found block may be broadcast while the networking thread is half-way through disconnecting a peer.',
    'note': 'Trusted: reference rules, simulated queues (seams/queues.py) in place of multiprocessing queues, scrypt stand-in, '
            'hollow base. Interleaving granularity: queue operations and handler boundaries (DESIGN 8).',
}


def generate(seed, tier):
    rng = Streams(seed).get('gen')
    build = [LC.gen_mine(rng, latest_bias=0.85, max_txs=2) for _ in range(rng.randint(2, 4))]
    for m in build:
        m['clock'] = 0
        m['via'] = 'memory'
    miners = rng.choice([1, 1, 2, 3])
    ops = []
    n = rng.randint(12, 40 if tier == 'quick' else 90)
    for _ in range(n):
        x = rng.random()
        if x < 0.3:
            ops.append({'op': 'miner_step', 'm': rng.randrange(miners)})
        elif x < 0.6:
            ops.append({'op': 'watcher_step'})
        elif x < 0.7:
            ops.append({'op': 'cycle', 'm': rng.randrange(miners)})        # request + input + hash + output, back to back
        elif x < 0.8:
            ops.append({'op': 'relay_tx', 'spec': LC.gen_tx_spec(rng), 'peer': rng.randrange(3)})
        elif x < 0.9:
            m = LC.gen_mine(rng, latest_bias=0.7, max_txs=2)
            m.update({'op': 'relay_block', 'peer': rng.randrange(3), 'ahead': rng.choice([0, 0, 0, 10, 29, 30]),
                      'route': rng.choice(['relay', 'relay', 'response']), 'mine_pool': rng.random() < 0.5})
            ops.append(m)
        elif x < 0.95:
            if rng.random() < 0.4:
                # ... with a winning answer of the miner waiting to be handled at that very moment
                ops.append({'op': 'miner_step', 'm': rng.randrange(miners)})
                ops.append({'op': 'miner_step', 'm': rng.randrange(miners)})
            ops.append({'op': 'relay_invalid_block', 'kind': rng.choice(['reward_plus_one', 'sig_other_key', 'ts_equal_parent', 'ev_sample']),
                        'a': rng.randrange(1000), 'b': rng.randrange(1000), 'peer': rng.randrange(3),
                        'found_during_validation': rng.random() < 0.5})
        elif x < 0.975:
            # the networking thread is half-way through disconnecting a peer (socket unregistered, peer still listed) while the
            # miner thread goes on: a found block is broadcast in that window
            ops.append({'op': 'peer_mid_disconnect', 'which': rng.randrange(3)})
            ops.append({'op': 'cycle', 'm': rng.randrange(miners)})
        else:
            ops.append({'op': 'clock', 'dt': rng.choice([100, 1000, 5000, 31_000, 120_000])})
    cfg = {'base': 'hreal', 'hard': rng.random() < 0.5, 'build': build, 'miners': miners, 'bots': rng.randint(1, 3),
           'wallet_keys': rng.randint(2, 6)}
    if rng.random() < 0.25:
        # a short chain on the real genesis block: every height holds a different block, so the proof-of-work evidence (which
        # samples ancestors by height) depends on the exact height and ancestry it is computed for
        cfg.update({'base': 'hlow_easy', 'hard': False})
    elif rng.random() < 0.3:
        # the served head sits just below a retarget boundary: the miner assembles the boundary block
        k = rng.randrange(5)
        span = 1_209_600
        cfg.update({'base': 'hboundary', 'k': k, 'elapsed': rng.choice([span, span // 2 + 1, span // 4, span * 2, span - 1]),
                    'hard': False})
        cfg['build'] = []
        for i in range(2 + k % 5 - 1 - rng.choice([0, 0, 1])):
            m = LC.gen_mine(rng, latest_bias=1.0, max_txs=1)
            m.update({'tip': -1, 'clock': 0, 'via': 'memory', 'dt': rng.choice([1, 60, 600])})
            cfg['build'].append(m)
    return {'config': cfg, 'ops': ops}


def execute(script):
    env.setup()
    from engines.nodesim import NodeWorld
    from refmodel import rules
    from refmodel.rules import judge_block
    from world import ledger as W
    from seams.fs import SimFS
    from seams import entropy
    from seams.queues import SimQueue, start_miner_thread
    import skepticoin.consensus as consensus
    import skepticoin.mining as mining
    import skepticoin.wallet as wallet_mod
    import skepticoin.blockstore as bs
    from skepticoin.wallet import Wallet
    from skepticoin.datatypes import Block, BlockHeader
    from skepticoin.networking import messages as M
    from datetime import datetime
    from decimal import Decimal

    res = Result()
    cfg = script['config']
    w = NodeWorld(script, PROP, res, n_bots=cfg.get('bots', 2))
    fs = SimFS()
    saved_open, saved_os = wallet_mod.__dict__.get('open'), wallet_mod.os
    wallet_mod.open = fs.open
    wallet_mod.os = fs.os_shim()
    import random as _random
    saved_wrandom = wallet_mod.random
    wallet_mod.random = _random.Random(script.get('seed', 0) ^ 0x5eed)     # hand-outs from an exhausted pool pick a key at random
    entropy.install(script.get('seed', 0))
    threads = []
    try:
        sim, chain, node, k = w.sim, w.sim.chain, w.node, w.k
        if sim.dead or node.loop_error:
            return res
        # ---- the watcher, wired like MinerWatcher.__call__ does after start-up
        nk = cfg.get('wallet_keys', 3)
        wkeys = [W.key(200 + i) for i in range(nk)]
        wallet = Wallet({kk.pub: kk.priv for kk in wkeys}, [kk.pub for kk in wkeys], {})
        watcher = object.__new__(mining.MinerWatcher)
        watcher.args = SimpleNamespace(quiet=True, n=cfg['miners'], log_to_file=False, log_to_stdout=False, dont_listen=True,
                                       listening_port=2412, freshness=10 ** 9)
        watcher.recv_queue = SimQueue('to-watcher')
        watcher.send_queues = [SimQueue('to-miner-%d' % i) for i in range(cfg['miners'])]
        watcher.processes = []
        watcher.hash_stats = {}
        watcher.balance = Decimal(0)
        watcher.start_balance = Decimal(0)
        watcher.start_time = datetime.fromtimestamp(0)
        watcher.wallet = wallet
        watcher.coinstate = w.cm.coinstate
        watcher.network_thread = SimpleNamespace(local_peer=node.lp)
        watcher.mining_args = {}
        watcher.log_silencer = []
        watcher.public_key = wallet.get_annotated_public_key('reserved for potentially mined block')
        mining.save_wallet(wallet)
        for i in range(cfg['miners']):
            mn = mining.Miner(watcher.args, watcher.recv_queue, watcher.send_queues[i], i)
            threads.append(start_miner_thread('miner-%d' % i, mn))

        assembled = {}       # miner id -> dict(served head id at assembly, key handed out, pool at assembly)
        found_ids = set()
        stop = {'now': False, 'rollback_seen': False}

        def sync_shadow():
            """Blocks the node accepted from peers (all honest here) enter the reference in the node's order."""
            cs = w.cm.coinstate
            for bid, blk in cs.block_by_hash.items():
                pass
            new = [b for b in cs.block_by_hash.values() if rules.block_id(b) not in chain.blocks]
            new.sort(key=lambda b: b.header.summary.height)
            for blk in new:
                if blk.header.summary.previous_block_hash in chain.blocks:
                    bid = rules.block_id(blk)
                    sim.cs = sim.cs.add_block_no_validation(blk)
                    chain.add(blk)
                    sim.stored.append(bid)
                    sim.block_objs[bid] = blk

        def watcher_step():
            q = watcher.recv_queue
            if q.empty():
                return
            item = q.get()
            miner_id, mtype, data = item
            k.current = node
            bs.DefaultBlockStore.instance = node.store
            try:
                if mtype == 'request_scrypt_input':
                    served_cs, pool = w.cm.get_state()
                    pool_ids = [rules.tx_id(t) for t in pool]
                    key_before = watcher.public_key
                    try:
                        watcher.handle_received_message(item)
                    except Exception as e:
                        res.violate(PROP, 'C12/candidate-assembly-raised',
                                    'assembling a candidate from the served head and the pending pool raised %s: %s' % (type(e).__name__, e))
                        stop['now'] = True
                        return
                    ma_ = watcher.mining_args[miner_id]          # (summary, ..., transactions): only the ends are relied on here
                    summary, txs = ma_[0], ma_[-1]
                    height = summary.height
                    assembled[miner_id] = {'served_head': served_cs.current_chain_hash, 'key': key_before, 'pool_ids': pool_ids,
                                           'clock': int(node.clock_s()), 'served_cs': served_cs}
                    res.bump('candidates_assembled')
                    # time clause holds for every assembled candidate, found or not
                    parent = served_cs.block_by_hash[served_cs.current_chain_hash]
                    if not summary.timestamp > parent.timestamp:
                        res.violate(PROP, 'C12/candidate-time-not-after-parent', 'candidate dated %d, parent %d' % (summary.timestamp, parent.timestamp))
                    return
                # scrypt_output
                ma_ = watcher.mining_args[miner_id]
                summary, txs = ma_[0], ma_[-1]
                height = summary.height
                info = assembled.get(miner_id, {})
                try:
                    ev = consensus.construct_pow_evidence_after_scrypt(data, watcher.coinstate, summary, height, txs)
                except Exception:
                    # the evidence cannot be completed on the watcher's current state: the real handler does the same call
                    rolled_back = summary.previous_block_hash not in w.cm.coinstate.block_by_hash
                    try:
                        watcher.handle_received_message(item)
                        err = None
                    except Exception as e:
                        err = e
                    if err is not None:
                        res.violate(PROP, 'C12/own-block-rejected', 'the miner-output handler raised %s for a candidate whose parent is no '
                                    'longer in the chain state' % type(err).__name__,
                                    {'candidate_parent_rolled_back': rolled_back, 'error': type(err).__name__})
                        stop['now'] = True
                    return
                cand = Block(BlockHeader(summary, ev), txs)
                found = cand.hash() < cand.target
                res.bump('hashes_returned')
                if not found:
                    try:
                        watcher.handle_received_message(item)
                    except Exception as e:
                        res.violate(PROP, 'C12/own-block-rejected', 'the miner-output handler raised %s for a hash that does not even win '
                                    '(the miner\'s message loop ends)' % type(e).__name__, {'error': type(e).__name__, 'found': False})
                        stop['now'] = True
                    return
                res.bump('blocks_found')
                bid = rules.block_id(cand)
                sync_shadow()
                parent_id = summary.previous_block_hash
                head_before = w.cm.coinstate.current_chain_hash
                now_s = int(node.clock_s())
                stale = parent_id != head_before
                if stale:
                    res.bump('probe:found_on_older_state')
                if parent_id not in w.cm.coinstate.block_by_hash:
                    # the node has rolled the candidate's parent back since the candidate was assembled: the block extends nothing
                    # the node serves, so the only outcomes the statement allows are "dropped quietly" (and nothing rolled back
                    # comes back with it)
                    res.bump('probe:found_on_rolled_back_parent')
                    ids0 = set(w.cm.coinstate.block_by_hash.keys())
                    head0 = w.cm.coinstate.current_chain_hash
                    try:
                        watcher.handle_received_message(item)
                        err = None
                    except Exception as e:
                        err = e
                    if err is not None:
                        res.violate(PROP, 'C12/own-block-rejected', 'the found-block handler raised %s for a candidate whose parent was '
                                    'rolled back' % type(err).__name__, {'candidate_parent_rolled_back': True, 'error': type(err).__name__})
                        stop['now'] = True
                    elif w.cm.coinstate.current_chain_hash != head0 and bid != w.cm.coinstate.current_chain_hash:
                        res.violate(PROP, 'C12/rolled-back-block-reinstated', 'handling a found block whose parent had been rolled back '
                                    'changed the served head to a block other than the found one',
                                    {'reinstated': len(set(w.cm.coinstate.block_by_hash.keys()) - ids0)})
                        stop['now'] = True
                    return
                # (a) the assembled block satisfies every rule at its parent
                broken = judge_block(chain, cand, now_s, None, consensus.calc_merkle_root_hash, sim.sig_cache)
                head_ahead = chain.blocks[parent_id].ts - now_s if parent_id in chain.blocks else 0
                if broken:
                    res.violate(PROP, 'C12/assembled-block-breaks-rule', 'found block breaks %s' % broken,
                                {'head_time_minus_clock': head_ahead, 'rules': [list(b) for b in broken]})
                    stop['now'] = True
                    return
                prb = chain.blocks[parent_id]
                fees = 0
                for t in txs[1:]:
                    fees += sum(prb.utxo[(i.output_reference.hash, i.output_reference.index)][0] for i in t.inputs) - sum(o.value for o in t.outputs)
                reward = txs[0]
                paid = sum(o.value for o in reward.outputs)
                if paid != rules.subsidy(prb.height + 1) + fees or any(o.public_key.public_key != info.get('key') for o in reward.outputs):
                    res.violate(PROP, 'C12/reward-not-subsidy-plus-fees-to-miner-key',
                                'reward pays %d, subsidy + fees = %d + %d; paid to the handed-out key: %s' % (
                                    paid, rules.subsidy(prb.height + 1), fees,
                                    all(o.public_key.public_key == info.get('key') for o in reward.outputs)))
                    stop['now'] = True
                    return
                if [rules.tx_id(t) for t in txs[1:]] != info.get('pool_ids'):
                    res.violate(PROP, 'C12/candidate-does-not-carry-the-pool', 'candidate transactions differ from the pending pool at assembly')
                    stop['now'] = True
                    return
                counts0 = {kk: v[0] for kk, v in w.count_block_messages(bid).items()}
                greeted0 = [id(c) for c in w.greeted_bot_conns()]
                key_before = watcher.public_key
                unused_before = list(wallet.unused_public_keys)
                lost = set(w.cm.coinstate.block_by_hash.keys()) - set(watcher.coinstate.block_by_hash.keys())
                # blocks the node has rolled back since the watcher took its copy of the state
                resurrected = set(watcher.coinstate.block_by_hash.keys()) - set(w.cm.coinstate.block_by_hash.keys())
                # can the found block be stored at all?  its ancestors must be in the store or still in its write buffer
                rows0 = {r[0] for r in node.store.sql('select block_hash from chain')}
                buffered0 = {b_.hash() for b_ in node.store.write_buffer}
                cur_, dropped = parent_id, False
                while cur_ in chain.blocks and cur_ not in rows0:
                    if cur_ not in buffered0:
                        dropped = True
                        break
                    cur_ = chain.blocks[cur_].parent.id if chain.blocks[cur_].parent is not None else None
                stuck = bool(getattr(node.store.connection, 'in_transaction', False))   # an earlier failed flush left it open
                try:
                    watcher.handle_received_message(item)
                    err = None
                except Exception as e:
                    err = e
                if err is not None:
                    res.violate(PROP, 'C12/own-block-rejected', 'the found-block handler raised %s: %s' % (type(err).__name__, err),
                                {'head_time_minus_clock': head_ahead, 'ancestor_dropped_from_store_buffer': dropped,
                                 'store_transaction_left_open_after_rollback': stuck and stop['rollback_seen'],
                                 'error': type(err).__name__})
                    stop['now'] = True
                    return
                served = w.cm.coinstate
                if bid not in served.block_by_hash:
                    res.violate(PROP, 'C12/found-block-not-in-served-state',
                                'a found block (id below target, valid) is not part of the chain state the node serves to peers')
                    stop['now'] = True
                    return
                if not stale and served.current_chain_hash != bid:
                    res.violate(PROP, 'C12/found-block-not-head', 'the found block extends the served head but is not the head',
                                {'watcher_state_has_rolled_back_blocks': bool(resurrected),
                                 'head_is_rolled_back_block': served.current_chain_hash in resurrected})
                    stop['now'] = True
                    return
                if lost and any(x not in served.block_by_hash for x in lost):
                    res.bump('probe:lost_update')      # blocks the network thread added meanwhile were replaced (not judged)
                rows = {r[0] for r in node.store.sql('select block_hash from chain')}
                if bid not in rows:
                    res.violate(PROP, 'C12/found-block-not-stored', 'the found block was not written to the block store')
                    stop['now'] = True
                    return
                if watcher.public_key == key_before and unused_before:
                    res.violate(PROP, 'C12/no-fresh-key-after-found-block', 'the miner keeps paying to the same key')
                    stop['now'] = True
                    return
                try:
                    on_disk = json.loads(fs.files['wallet.json'].decode())
                    saved_ok = watcher.public_key.hex() in on_disk['public_key_annotations'] or not unused_before
                except Exception:
                    saved_ok = False
                if not saved_ok:
                    res.violate(PROP, 'C12/wallet-not-saved-after-found-block', 'wallet.json does not record the newly reserved key')
                    stop['now'] = True
                    return
                found_ids.add(bid)
                pending_broadcast.append((bid, counts0, greeted0))
                sync_shadow()
                res.distinct.add('found:%s:%d:%s' % (cfg['hard'], len(txs) - 1, stale))
            finally:
                k.current = None

        pending_broadcast = []

        def check_broadcasts():
            w.settle(2500)
            for bid, counts0, greeted0 in pending_broadcast:
                after = w.count_block_messages(bid)
                for key, (n, c) in after.items():
                    if id(c) not in greeted0 or c.closed or id(c) in excluded_conns:
                        continue
                    delta = n - counts0.get(key, 0)
                    if delta != 1:
                        res.violate(PROP, 'C12/found-block-broadcast-count', 'a greeted peer received the found block %d times' % delta)
                        stop['now'] = True
                        return
                res.bump('broadcasts_checked')
            del pending_broadcast[:]

        def miner_step(m):
            k.current = node
            try:
                threads[m % len(threads)].step()
            finally:
                k.current = None
            err = threads[m % len(threads)].error
            if err is not None:
                raise RuntimeError('harness: miner thread died: %r' % (err,))

        half_closed = []
        excluded_conns = set()

        def finish_disconnect():
            # the networking thread completes what it had started
            while half_closed:
                v_ = half_closed.pop()
                k.current = node            # (the node's clock and randomness: this is the node's own thread at work)
                try:
                    v_.sock.close()
                    node.lp.network_manager.handle_peer_disconnected(v_)
                except Exception:
                    pass
                finally:
                    k.current = None

        for op in script['ops']:
            if res.violations or stop['now'] or node.loop_error:
                break
            kind = op['op']
            res.events += 1
            if half_closed and kind not in ('cycle', 'watcher_step', 'miner_step'):
                finish_disconnect()
            if kind == 'miner_step':
                miner_step(op.get('m', 0))
            elif kind == 'watcher_step':
                watcher_step()
            elif kind == 'cycle':
                m = op.get('m', 0)
                for _ in range(4):
                    miner_step(m)
                    while not watcher.recv_queue.empty() and not stop['now']:
                        watcher_step()
                if pending_broadcast and not stop['now']:
                    check_broadcasts()
            elif kind == 'relay_tx':
                sync_shadow()
                hb = chain.blocks[w.cm.coinstate.current_chain_hash]
                taken = set()
                for t in w.cm.transaction_pool:
                    taken |= {(i.output_reference.hash, i.output_reference.index) for i in t.inputs}
                txs, _, _ = sim.build_txs(hb, [op.get('spec', {})], taken)
                c = w.conn(op.get('peer', 0))
                if txs and c is not None:
                    c.send(M.DataMessage(M.DATA_TRANSACTION, txs[0]))
                    w.settle(2000)
                    res.bump('transactions_relayed')
            elif kind == 'relay_block':
                sync_shadow()
                rb = sim.parent_of(op.get('tip', -1))
                txs, _, _ = sim.build_txs(rb, op.get('txs', []))
                if op.get('mine_pool'):
                    # the peer's block confirms what is pending here (extends the served head)
                    rb = chain.blocks[w.cm.coinstate.current_chain_hash]
                    txs, used = [], set()
                    for t in list(w.cm.transaction_pool):
                        refs = {(i.output_reference.hash, i.output_reference.index) for i in t.inputs}
                        if len(txs) < 3 and not (refs & used) and not rules.judge_transaction(t, rb.utxo, sim.sig_cache)[0]:
                            txs.append(t)          # (a pool holding something invalid at the head is C13's business)
                            used |= refs
                clock = w.node_clock()
                ts = rb.ts + max(1, op.get('dt', 60))
                if op.get('ahead'):
                    ts = max(rb.ts + 1, clock + op['ahead'])
                    res.bump('probe:head_dated_ahead_of_clock')
                if ts > clock + 30:
                    ts = rb.ts + 1
                    if ts > clock + 30:
                        continue
                blk = W.roundtrip(W.mine_honest(W.view_at(sim.cs, rb.id), txs, W.key(op.get('miner', 0) % 12), ts))
                c = w.conn(op.get('peer', 0))
                if c is not None and rules.block_id(blk) not in chain.blocks:
                    if op.get('route', 'relay') == 'relay':
                        c.send(M.DataMessage(M.DATA_BLOCK, blk))
                    else:
                        c.offer_block(blk)          # bulk-download route: announce, be asked, serve
                    if op.get('ahead'):
                        # processed within the same virtual second: the head stays ahead of the clock
                        w.k.run(w.k.now + 700)
                    else:
                        w.settle(2500)
                    sync_shadow()
                    res.bump('blocks_relayed')
            elif kind == 'relay_invalid_block':
                from engines import forgeries
                sync_shadow()
                hb = chain.blocks[w.cm.coinstate.current_chain_hash]
                try:
                    made = forgeries.build(sim, op['kind'], hb, dict(op, dt=1, clock=0))
                except Exception:
                    made = None
                if made is not None and made[0].header.summary.timestamp <= w.node_clock() + 20:
                    c = w.conn(op.get('peer', 0))
                    if c is not None:
                        ids_before = set(w.cm.coinstate.block_by_hash.keys())
                        import skepticoin.networking.remote_peer as rp_
                        orig_v_ = rp_.validate_block_in_coinstate
                        if op.get('found_during_validation'):
                            # the miner's winning answer is handled (on the miner's thread) while the networking thread is inside
                            # the slow validation of this block - which then fails
                            def racing_validate(block_, coinstate_):
                                if not watcher.recv_queue.empty() and not stop['now']:
                                    res.bump('probe:miner_answer_handled_during_validation')
                                    watcher_step()
                                return orig_v_(block_, coinstate_)
                            rp_.validate_block_in_coinstate = racing_validate
                        try:
                            c.send(M.DataMessage(M.DATA_BLOCK, made[0]))
                            w.settle(2500)
                        finally:
                            rp_.validate_block_in_coinstate = orig_v_
                        res.bump('invalid_blocks_relayed')
                        if ids_before - set(w.cm.coinstate.block_by_hash.keys()):
                            stop['rollback_seen'] = True
                            res.bump('probe:rollback_dropped_blocks')
            elif kind == 'peer_mid_disconnect':
                nm = node.lp.network_manager
                act = [p_ for p_ in nm.connected_peers.values() if p_.hello_sent and p_.hello_received and p_.sock in node.lp.selector.get_map()]
                if len(act) >= 2 and not half_closed:
                    victim = act[op.get('which', 0) % (len(act) - 1)]      # not the last one: a healthy peer comes after it
                    k.current = node
                    try:
                        node.lp.selector.unregister(victim.sock)
                    finally:
                        k.current = None
                    half_closed.append(victim)
                    for b_ in w.bots:
                        for c_ in b_.conns:
                            if c_.sock.peer is victim.sock:
                                excluded_conns.add(id(c_))
                    res.bump('probe:peer_half_way_through_disconnect')
            elif kind == 'clock':
                w.settle(op.get('dt', 1000))
            # whatever happens afterwards, a block this node found stays in the chain state it serves
            if found_ids and not res.violations and not stop['now']:
                served_ids = w.cm.coinstate.block_by_hash
                gone = [b for b in found_ids if b not in served_ids]
                if gone:
                    res.violate(PROP, 'C12/found-block-dropped-from-served-state',
                                'after %s a block this node had found and adopted is no longer in the chain state it serves' % kind)
                    break
        if pending_broadcast and not res.violations and not stop['now']:
            check_broadcasts()
        if node.loop_error and not res.violations:
            res.violate(PROP, 'C12/exception-left-event-loop', '%s: %s' % node.loop_error[:2])
    finally:
        for t in threads:
            try:
                t.shutdown()
            except Exception:
                pass
        entropy.uninstall()
        if saved_open is None:
            wallet_mod.__dict__.pop('open', None)
        else:
            wallet_mod.open = saved_open
        wallet_mod.os = saved_os
        wallet_mod.random = saved_wrandom
        w.close()
    res.digest = w.trace.digest()
    return res


def classify_known(script, violation):
    d = violation.get('data', {})
    if violation['cls'] == 'C12/own-block-rejected' and d.get('ancestor_dropped_from_store_buffer') and d.get('error') in ('IntegrityError', 'OperationalError'):
        return 'rollback_while_candidate_outstanding'
    if violation['cls'] == 'C12/own-block-rejected' and d.get('candidate_parent_rolled_back') and d.get('error') == 'KeyError':
        return 'rollback_while_candidate_outstanding'
    if violation['cls'] == 'C12/own-block-rejected' and d.get('store_transaction_left_open_after_rollback') and d.get('error') == 'OperationalError':
        return 'rollback_while_candidate_outstanding'
    if violation['cls'] == 'C12/found-block-not-head' and d.get('head_is_rolled_back_block'):
        return 'rollback_while_candidate_outstanding'
    if violation['cls'] in ('C12/own-block-rejected', 'C12/assembled-block-breaks-rule') and d.get('head_time_minus_clock', 0) >= 30:
        rules_broken = [r[1] for r in d.get('rules', [])]
        if violation['cls'] == 'C12/own-block-rejected' or rules_broken == ['timestamp-too-far-ahead']:
            return 'head_time_minus_clock_ge_30'
    return None


def describe():
    return {
        'rule': 'one run = one seeded interleaving of miner threads, watcher steps, relays and clock movement; distinct = (target '
                'class, transactions in the found block, found on an older state?); non-trivial = at least one block found',
        'components': {'real': ['mining.MinerWatcher handlers (request / output / counters)', 'mining.Miner.__call__ loop in baton-passed threads',
                                'consensus block assembly and validation', 'ChainManager.get_state/set_coinstate, NetworkManager.broadcast_block',
                                'DiskInterface + BlockStore (real SQLite)', 'wallet hand-out and save_wallet'],
                       'stub': ['multiprocessing queues -> simulated queues', 'MinerWatcher start-up (argparse, process spawn)', 'scrypt stand-in',
                                'network, clock; wallet file on SimFS']},
        'assumptions': ['pool contents fit one block'],
        'expected_probes': ['blocks_found', 'candidates_assembled', 'broadcasts_checked', 'probe:found_on_older_state',
                            'probe:head_dated_ahead_of_clock', 'transactions_relayed', 'blocks_relayed'],
    }
