"""C15 — wallet keys: faithful file, no key handed out twice, balance, atomic save under process crashes."""
import json

from simkit.core import Streams, Result, Trace
from seams import env

PROP = 'C15'
LEVEL = 'fault_enumeration'
BUDGET = {
    'quick': {'runs': 3000, 'wall': 150, 'chunk': 20},
    'thorough': {'runs': 40000, 'wall': 1500, 'chunk': 20},
}
MANIFEST = {
    'engine': 'fs-crash-sim',
    'level': 'fault_enumeration',
    'text': 'Seeded scripts over a small wallet (5-30 keys; seeded raw-write size so a save is several write(2)s): hand out '
            'keys for receiving/mining/change, restore, save, load, blocks paying wallet keys, balance; and for EVERY save '
            'in the script a process crash is injected at EVERY durable boundary of that save (truncating open of the side '
            'file, each raw write including torn ones, close, rename), each followed by inspection of wallet.json, a reload '
            'through the node\'s own loader and a continuation. Exhaustive in crash points per save, sampled over scripts.'
            ' The receive script (skepticoin-receive main()) is run as a process of its own against the simulated file system with a crash at every boundary of its save, followed by the next caller: an address shown before must not be shown again. Wallet keys also spend (several outputs of one key in one transaction, change back to an input key, one key paid twice) before balances are compared.'
            " The mining script's MinerWatcher.__call__ runs for real (start-up, message loop, shutdown) with Ctrl-C at a seeded call of the found-block handler or a disk that fills up, then the next process loads the wallet; the very first start in an empty directory is crash-swept; after every crash the next process's first complete save is checked too."
            ' A start on which reading the existing wallet fails once (EIO, EACCES, EMFILE, EINTR, ESTALE) must leave wallet.json as it was, and the next start loads it.'
            ' The send script runs as a process too (real main(), stand-ins for chain, networking thread and sleep) with a fault after the transaction has left it: the key that receives its change is never among the unused keys of wallet.json afterwards.',
    'note': 'Process-crash model only (what the statement says): completed write(2)s, truncations and renames survive, '
            'Python-level buffers do not; no power-loss reordering. Trusted: SimFS (seams/fs.py), own JSON parsing of the file.',
}


def generate(seed, tier):
    rng = Streams(seed).get('gen')
    nkeys = rng.randint(2, 30)
    ops = []
    n = rng.randint(5, 20 if tier == 'quick' else 40)
    for _ in range(n):
        x = rng.random()
        if x < 0.35:
            ops.append({'op': 'handout', 'purpose': rng.choice(['receive', 'mining', 'change'])})
            if rng.random() < 0.7:
                ops.append({'op': 'save'})
        elif x < 0.45:
            ops.append({'op': 'restore', 'which': rng.randrange(100)})
        elif x < 0.65:
            ops.append({'op': 'save'})
        elif x < 0.8:
            ops.append({'op': 'load'})
        elif x < 0.86:
            ops.append({'op': 'pay', 'key': rng.randrange(100), 'n': rng.randint(1, 3)})
        elif x < 0.91:
            # the wallet's keys spend: several inputs of one key, change back to an input key, one key paid twice
            ops.append({'op': 'spend_own', 'mode': rng.randrange(3), 'outs': rng.randrange(4), 'n': rng.randint(1, 3),
                        'a': rng.randrange(1000)})
            ops.append({'op': 'balance'})
        elif x < 0.95:
            ops.append({'op': 'receive_script', 'note': rng.choice(['bob', 'for alice', 'x'])})
        elif x < 0.975:
            # the mining script from start-up to shutdown: reserves a key, finds blocks, is interrupted (Ctrl-C) at a seeded call
            ops.append({'op': 'miner_session', 'rounds': rng.randint(1, 3), 'interrupt_at': rng.choice([None] + list(range(0, 14))),
                        'before': rng.random() < 0.5})
            if rng.random() < 0.3:
                # the disk fills up while the miner runs: saving the wallet fails from the first found block on
                ops[-1].update({'disk_full': True, 'interrupt_at': None, 'rounds': rng.randint(2, 3)})
        elif x < 0.985:
            ops.append({'op': 'first_start', 'keys': rng.randint(2, 5)})
        elif x < 0.993:
            ops.append({'op': 'start_with_read_fault', 'errno': rng.choice([5, 13, 24, 4, 116])})
        elif x < 0.997:
            ops.append({'op': 'send_script', 'fault': rng.choice(['interrupt', 'broadcast_error', 'monitor_error']), 'amount': rng.choice([1, 1, 1000, 10 ** 12])})
        else:
            ops.append({'op': 'balance'})
    ops.append({'op': 'save'})
    ops.append({'op': 'load'})
    return {'config': {'keys': nkeys, 'raw_write_size': rng.choice([max(13, nkeys * 29), 257, 1000, 4096, 8192, 8192]),
                       'drain': rng.random() < 0.3},
            'ops': ops}


def _parse(data: bytes):
    d = json.loads(data.decode('utf-8'))
    return (dict(d['keypairs']), list(d['unused_public_keys']), dict(d['public_key_annotations']))


def _wallet_tuple(w):
    from skepticoin.humans import human
    return ({human(k): human(v) for k, v in w.keypairs.items()}, [human(k) for k in w.unused_public_keys],
            {human(k): a for k, a in w.public_key_annotations.items()})


def _same(a, b):
    return a[0] == b[0] and sorted(a[1]) == sorted(b[1]) and a[2] == b[2]


def _miner_session(op, fs, sim, wallet, res, trace, save_wallet, open_or_init_wallet, all_pubs):
    """skepticoin-mine's MinerWatcher.__call__ run for real (start-up, message loop, shutdown) against a socket-less node and
    a scripted miner process; KeyboardInterrupt is raised at the k-th call the found-block handler makes to its collaborators.
    Afterwards the wallet FILE is what the next process sees: a key that received a block reward in this session must not be
    handed out again while unused keys remain."""
    import sys
    import skepticoin.mining as mining
    import skepticoin.blockstore as bs
    import skepticoin.consensus as consensus
    from skepticoin.networking.local_peer import LocalPeer
    from skepticoin.wallet import Wallet

    save_wallet(wallet)                       # the file is this wallet
    file_t = _parse(fs.files['wallet.json'])
    if len(file_t[1]) < 3:
        return True, 'too few unused keys'
    from skepticoin.networking.disk_interface import DiskInterface
    lp = LocalPeer(disk_interface=DiskInterface())      # (LocalPeer's default argument is ONE DiskInterface shared by every instance)
    store = bs.BlockStore(':memory:')
    saved_store = bs.DefaultBlockStore.instance
    bs.DefaultBlockStore.instance = store
    store.write_blocks_to_disk(sorted(sim.cs.block_by_hash.values(), key=lambda b_: b_.height))
    head_ts = sim.cs.head().timestamp
    ids0 = set(sim.cs.block_by_hash.keys())
    state = {'calls': 0, 'pending': None, 'rounds': op.get('rounds', 1), 'nonce': 0, 'fired': False}
    k_int, before = op.get('interrupt_at'), op.get('before', True)

    class ScriptQueue:
        # stands in for multiprocessing.Queue: the first one made is the watcher's inbox, the others lead to the miners
        made = []

        def __init__(self):
            self.items = []
            self.inbox = not ScriptQueue.made
            ScriptQueue.made.append(self)

        def put(self, item):
            if not self.inbox:
                state['pending'] = item            # ('scrypt_input', (summary, height))

        def get(self):
            if state['pending'] is not None:
                _t, (summary, height) = state['pending']
                state['pending'] = None
                return (0, 'scrypt_output', consensus.construct_summary_hash(summary, height))
            if state['rounds'] > 0:
                state['rounds'] -= 1
                state['nonce'] += 1
                if op.get('disk_full') and fs.enospc is None:
                    fs.enospc = {'wallet.json.new'}
                    res.bump('fault:disk_full_during_miner_session')
                return (0, 'request_scrypt_input', state['nonce'])
            raise KeyboardInterrupt()             # Ctrl-C between two messages

        def empty(self):
            return False
    ScriptQueue.made = []

    class FakeProcess:
        def __init__(self, *a, **kw):
            pass

        def start(self):
            pass

        def join(self):
            pass

    class FakeThread:
        local_peer = lp

        def stop(self):
            pass

        def join(self):
            pass

    def interruptible(fn):
        def wrapped(*a, **kw):
            n = state['calls']
            state['calls'] += 1
            if k_int is not None and n == k_int and before and not state['fired']:
                state['fired'] = True
                raise KeyboardInterrupt()
            r = fn(*a, **kw)
            if k_int is not None and n == k_int and not before and not state['fired']:
                state['fired'] = True
                raise KeyboardInterrupt()
            return r
        return wrapped

    names = ['Queue', 'Process', 'configure_logging_from_args', 'check_chain_dir', 'read_chain_from_disk',
             'start_networking_peer_in_background', 'wait_for_fresh_chain', 'MAX_KNOWN_HASH_HEIGHT', 'time', 'save_wallet']
    saved = {n_: mining.__dict__.get(n_) for n_ in names}
    saved_gapk = Wallet.get_annotated_public_key
    argv = sys.argv
    try:
        lp.chain_manager.set_coinstate(sim.cs)
        mining.Queue = ScriptQueue
        mining.Process = FakeProcess
        mining.configure_logging_from_args = lambda a: None
        mining.check_chain_dir = lambda: None
        mining.read_chain_from_disk = lambda: sim.cs
        mining.start_networking_peer_in_background = lambda a, c: FakeThread()
        mining.wait_for_fresh_chain = lambda t, freshness=0: None
        mining.MAX_KNOWN_HASH_HEIGHT = 0
        mining.time = lambda: head_ts + 50
        sys.argv = ['skepticoin-mine', '--quiet']
        watcher = mining.MinerWatcher()
        # the calls a found-block handler makes to its collaborators are the places where the interrupt may land
        lp.chain_manager.set_coinstate = interruptible(lp.chain_manager.set_coinstate)
        lp.network_manager.broadcast_block = interruptible(lp.network_manager.broadcast_block)
        lp.disk_interface.save_block = interruptible(lp.disk_interface.save_block)
        lp.disk_interface.flush_blocks = interruptible(lp.disk_interface.flush_blocks)
        mining.save_wallet = interruptible(saved['save_wallet'])
        Wallet.get_annotated_public_key = interruptible(saved_gapk)
        try:
            with env.quiet():
                watcher()
        except KeyboardInterrupt:
            # Ctrl-C during start-up (before the message loop): the process simply ends; the wallet file is what it is
            res.bump('probe:interrupt_during_miner_start_up')
        except Exception as e:
            res.violate(PROP, 'C15/miner-session-raised', 'the mining script let %s escape' % type(e).__name__)
            return False, 'raised'
        res.bump('miner_sessions')
        if state['fired']:
            res.bump('fault:interrupt_inside_miner_session')
        served = lp.chain_manager.coinstate
        paid = set()
        for bid, blk in served.block_by_hash.items():
            if bid not in ids0:
                for o in blk.transactions[0].outputs:
                    paid.add(o.public_key.public_key)
        if paid:
            res.bump('probe:session_found_blocks', len(paid))
    finally:
        fs.enospc = None
        sys.argv = argv
        Wallet.get_annotated_public_key = saved_gapk
        for n_, v_ in saved.items():
            if v_ is None:
                mining.__dict__.pop(n_, None)
            else:
                setattr(mining, n_, v_)
        bs.DefaultBlockStore.instance = saved_store
        try:
            store.close()
            lp.selector.close()
        except Exception:
            pass
    # the next process
    try:
        w2 = open_or_init_wallet()
    except Exception as e:
        res.violate(PROP, 'C15/reload-fails-after-crash', 'after a mining session the wallet does not load (%s)' % type(e).__name__)
        return False, 'reload'
    unused_n = len(w2.unused_public_keys)
    for _ in range(min(3, max(0, unused_n - 1))):
        k2 = w2.get_annotated_public_key('next session')
        if k2 in paid:
            res.violate(PROP, 'C15/key-handed-out-twice',
                        'a key that received the reward of a block found in the previous mining session is handed out again after a '
                        'restart although %d unused keys remain (interrupt at call %r, %s it)' % (
                            unused_n, k_int, 'before' if before else 'after'))
            return False, 'twice'
    trace.add('miner_session', len(paid), state['fired'])
    res.distinct.add('miner_session:%s:%s:%d' % (k_int, before, len(paid)))
    return True, ''


def execute(script):
    env.setup()
    env.use_fast_scrypt(True)
    from seams.fs import SimFS, Crash
    from seams import entropy
    import skepticoin.wallet as wallet_mod
    import skepticoin.scripts.utils as utils_mod
    from skepticoin.wallet import Wallet, save_wallet
    from skepticoin.scripts.utils import open_or_init_wallet
    from skepticoin.humans import human
    from engines.ledger import LedgerSim
    from world import ledger as W

    res = Result()
    trace = Trace()
    cfg = script['config']
    fs = SimFS(cfg.get('raw_write_size', 8192))
    saved = {}
    for mod in (wallet_mod, utils_mod):
        saved[mod] = (mod.__dict__.get('open'), mod.os)
        mod.open = fs.open
        mod.os = fs.os_shim()
    entropy.install(script.get('seed', 0))
    import random as _random
    saved_wrandom = wallet_mod.random
    wallet_mod.random = _random.Random(script.get('seed', 0) ^ 0x5eed)     # hand-outs from an exhausted pool pick a key at random
    try:
        sim = LedgerSim({'base': 'hreal'}, PROP, res, trace)
        nk = cfg.get('keys', 5)
        ks = [W.key(100 + i) for i in range(nk)]
        wallet = Wallet({k.pub: k.priv for k in ks}, [k.pub for k in ks], {})
        all_pubs = {k.pub for k in ks}
        outstanding = set()       # handed out and not restored (in-memory lineage)
        reused = {}               # key -> hand-outs it got from an exhausted pool that were not undone yet
        last_handout = None
        drained = False
        save_index = 0

        def check_file_is(fsnap, allowed, what):
            data = fsnap.get('wallet.json')
            if data is None:
                if None in allowed:
                    return None
                res.violate(PROP, 'C15/wallet-file-missing-after-crash', what)
                return False
            try:
                t = _parse(data)
            except Exception as e:
                res.violate(PROP, 'C15/wallet-file-corrupt-after-crash', '%s: wallet.json does not parse (%s), %d bytes' % (
                    what, type(e).__name__, len(data)))
                return False
            for a in allowed:
                if a is not None and _same(t, a):
                    return t
            res.violate(PROP, 'C15/wallet-file-neither-old-nor-new', '%s: wallet.json is a complete JSON document but neither '
                        'the previous nor the new wallet' % what)
            return False

        for op in script['ops']:
            if res.violations:
                break
            res.events += 1
            kind = op['op']
            if kind == 'handout':
                unused_before = list(wallet.unused_public_keys)
                k = wallet.get_annotated_public_key(op.get('purpose', 'x'))
                trace.add('handout', k)
                if k not in all_pubs:
                    res.violate(PROP, 'C15/handed-out-foreign-key', 'key not in the wallet')
                    break
                if not unused_before:
                    reused[k] = reused.get(k, 0) + 1       # a hand-out from an exhausted pool: an already used key again
                if unused_before:
                    if k in outstanding:
                        res.violate(PROP, 'C15/key-handed-out-twice',
                                    'a key with an outstanding hand-out was handed out again while %d unused keys remain' % len(unused_before))
                        break
                    if k not in unused_before:
                        res.violate(PROP, 'C15/key-handed-out-twice', 'handed-out key was not among the unused keys')
                        break
                    if k in wallet.unused_public_keys:
                        res.violate(PROP, 'C15/key-handed-out-twice', 'handed-out key is still listed as unused')
                        break
                    res.bump('handouts')
                else:
                    res.bump('probe:handout_with_no_unused_keys_left')
                outstanding.add(k)
                last_handout = (k, op.get('purpose', 'x'))
            elif kind == 'restore':
                if not outstanding:
                    continue
                ann = wallet.public_key_annotations
                cands = sorted(k for k in outstanding if k in ann and k not in wallet.unused_public_keys)
                if not cands:
                    continue
                # prefer undoing the most recent hand-out (what the miner does with its reserved key on shutdown)
                if last_handout is not None and last_handout[0] in cands and op.get('which', 0) % 2 == 0:
                    k = last_handout[0]
                else:
                    k = cands[op.get('which', 0) % len(cands)]
                wallet.restore_annotated_public_key(k, ann[k])
                res.bump('restores')
                if reused.get(k):
                    # this undoes a hand-out that came from an exhausted pool: the key's earlier hand-out is still
                    # outstanding, so the key must not become available again
                    reused[k] -= 1
                    res.bump('probe:restore_of_reused_key')
                    if k in wallet.unused_public_keys:
                        res.violate(PROP, 'C15/key-handed-out-twice',
                                    'a key that had been handed out before, was handed out again from an exhausted pool and then '
                                    'restored, is back among the unused keys: the next hand-out returns it although it is in use')
                        break
                    continue
                outstanding.discard(k)
                if k not in wallet.unused_public_keys or k in wallet.public_key_annotations:
                    res.violate(PROP, 'C15/restore-did-not-return-key', 'restored key is not unused again')
                    break
            elif kind == 'save':
                save_index += 1
                old_snap = fs.snapshot()
                old_t = _parse(old_snap['wallet.json']) if 'wallet.json' in old_snap else None
                new_t = _wallet_tuple(wallet)
                # dry run to count the durable boundaries of this save (crash runs start from a copy of the wallet as it
                # is now, so a save that keeps bookkeeping on the wallet object behaves the same in every re-execution)
                import copy
                wallet_before = copy.deepcopy(wallet)
                fs.crash_at = None
                fs.reset_boundaries()
                save_wallet(wallet)
                nb = fs.boundary
                log = list(fs.log)
                final_snap = fs.snapshot()
                if check_file_is(final_snap, [new_t], 'after a completed save') is False:
                    break
                if 'wallet.json.new' in final_snap:
                    res.bump('probe:side_file_left_behind')
                # crash at EVERY boundary (and torn variants of every raw write)
                points = []
                for k in range(nb):
                    points.append(k)
                    if log[k][0] == 'write' and log[k][2] and log[k][2] > 1:
                        points.append((k, 'torn', 1))
                        points.append((k, 'torn', log[k][2] // 2))
                        points.append((k, 'torn', log[k][2] - 1))
                for pt in points:
                    fs.restore(old_snap)
                    fs.crash_at = pt
                    fs.reset_boundaries()
                    try:
                        save_wallet(copy.deepcopy(wallet_before))
                        raise RuntimeError('harness: crash point %r not reached' % (pt,))
                    except Crash:
                        pass
                    fs.crash_at = None
                    res.bump('fault:crash_in_save')
                    if isinstance(pt, tuple):
                        res.bump('fault:torn_write')
                    got = check_file_is(fs.snapshot(), [old_t, new_t], 'crash at boundary %r (%s) of save #%d' % (
                        pt, log[pt[0] if isinstance(pt, tuple) else pt][0], save_index))
                    if got is False:
                        break
                    if got is not None:
                        # reload through the node's own loader: must succeed and be that same wallet
                        try:
                            w2 = open_or_init_wallet()
                        except Exception as e:
                            res.violate(PROP, 'C15/reload-fails-after-crash', 'loader raised %s' % type(e).__name__)
                            break
                        if not _same(_wallet_tuple(w2), got):
                            res.violate(PROP, 'C15/reload-differs-from-file', 'loaded wallet differs from the file content')
                            break
                        res.bump('reloads_after_crash')
                        # ... and the next process goes on: its first complete save (of what it loaded, which may be shorter than
                        # whatever the crashed save left lying around) must again produce exactly that wallet
                        k_pt = pt[0] if isinstance(pt, tuple) else pt
                        if k_pt >= nb - 4 or (k_pt * 7 + save_index) % 19 == 0:
                            fs.reset_boundaries()
                            try:
                                save_wallet(w2)
                            except Exception as e:
                                res.violate(PROP, 'C15/save-fails-after-crash', 'the first save after a crash at boundary %r raised %s' % (pt, type(e).__name__))
                                break
                            res.bump('saves_after_crash')
                            if check_file_is(fs.snapshot(), [got], 'first complete save after a crash at boundary %r (%s) of save #%d' % (
                                    pt, log[k_pt][0], save_index)) is False:
                                break
                if res.violations:
                    break
                res.distinct.add('save:%d:%d:%d' % (nb, cfg.get('raw_write_size', 0), len(new_t[2])))
                fs.restore(final_snap)
                res.bump('saves')
                res.bump('crash_points', len(points))
                trace.add('save', nb, len(points))
            elif kind == 'load':
                if not fs.isfile('wallet.json'):
                    continue
                file_t = _parse(fs.files['wallet.json'])
                w2 = open_or_init_wallet()
                if not _same(_wallet_tuple(w2), file_t):
                    res.violate(PROP, 'C15/load-differs-from-file', 'loaded wallet differs from wallet.json')
                    break
                # hand-outs made after the last completed save are legitimately forgotten by a restart
                wallet = w2
                outstanding = {k for k in all_pubs if human(k) in file_t[2]}
                reused = {}
                res.bump('loads')
            elif kind == 'pay':
                kk = ks[op.get('key', 0) % nk]
                sim.op_mine({'op': 'mine', 'tip': -1, 'txs': [], 'miner': 0, 'dt': 3, 'clock': 0})
                # pay by mining to the wallet key (the same key is paid n times): LedgerSim pays pool keys, so build the blocks here
                for _ in range(op.get('n', 1)):
                    head = sim.chain.blocks[sim.cs.current_chain_hash]
                    view = W.view_at(sim.cs, head.id)
                    blk = W.mine_honest(view, [], kk, head.ts + 5)
                    sim.deliver(blk, blk.header.summary.timestamp, 'honest', {'kind': 'pay'})
                    res.bump('payments')
            elif kind == 'spend_own':
                head = sim.chain.blocks[sim.cs.current_chain_hash]
                mine_refs = sorted(r for r, (v, pub) in head.utxo.items() if pub in wallet.keypairs)
                if not mine_refs:
                    continue
                by_key = {}
                for r in mine_refs:
                    by_key.setdefault(head.utxo[r][1], []).append(r)
                order = sorted(by_key, key=lambda pk: (-len(by_key[pk]), pk))
                mode = op.get('mode', 0) % 3
                if mode == 0:
                    refs = by_key[order[0]][:1 + op.get('n', 1)]          # several outputs of ONE key in one transaction
                elif mode == 1:
                    refs = mine_refs[:1 + op.get('n', 1)]                 # a mix of keys
                else:
                    refs = by_key[order[-1]][:1]
                total = sum(head.utxo[r][0] for r in refs)
                if total < 8:
                    continue
                in_key = W.key_by_pub(head.utxo[refs[0]][1])
                wk = ks[op.get('a', 0) % nk]
                wk2 = ks[(op.get('a', 0) + 1) % nk]
                foreign = W.key(op.get('a', 0) % 12)
                pat = op.get('outs', 0) % 4
                if pat == 0:
                    outs = [(total, foreign)]
                elif pat == 1:
                    outs = [(total // 2, foreign), (total - total // 2, in_key)]       # change back to an input key
                elif pat == 2:
                    outs = [(total // 4, wk), (total // 4, wk), (total - 2 * (total // 4), foreign)]   # one wallet key paid twice
                else:
                    outs = [(total // 3, wk), (total - total // 3, wk2)]
                signers = [W.key_by_pub(head.utxo[r][1]) for r in refs]
                tx = W.make_tx(refs, outs, signers)
                view = W.view_at(sim.cs, head.id)
                blk = W.mine_honest(view, [tx], W.key(1), head.ts + 5)
                sim.deliver(blk, blk.header.summary.timestamp, 'honest', {'kind': 'spend_own'})
                res.bump('probe:wallet_keys_spend')
                if len(refs) > 1 and len({head.utxo[r][1] for r in refs}) == 1:
                    res.bump('probe:several_inputs_of_one_wallet_key')
                res.distinct.add('spend_own:%d:%d:%d' % (mode, pat, len(refs)))
            elif kind == 'receive_script':
                # skepticoin-receive as its own process: load wallet.json, hand a key out, save, SHOW the address.
                # A crash at any boundary of its save; whatever was shown before must not be shown to the next caller.
                if not fs.isfile('wallet.json'):
                    continue
                import io
                import sys
                import contextlib
                import skepticoin.scripts.receive as receive_mod
                save_wallet(wallet)                      # the file is this wallet
                snap0 = fs.snapshot()
                file_t = _parse(snap0['wallet.json'])
                unused_in_file = len(file_t[1])

                def run_script(crash_at):
                    out = io.StringIO()
                    argv = sys.argv
                    sys.argv = ['skepticoin-receive', op.get('note', 'x')]
                    fs.crash_at = crash_at
                    fs.reset_boundaries()
                    crashed = False
                    try:
                        with contextlib.redirect_stdout(out):
                            receive_mod.main()
                    except Crash:
                        crashed = True
                    except Exception as e:
                        # the script itself fails (e.g. the wallet it finds does not load)
                        crashed = 'failed: %s' % type(e).__name__
                    finally:
                        sys.argv = argv
                        fs.crash_at = None
                    shown = [ln.strip() for ln in out.getvalue().splitlines() if ln.strip().startswith('SKE') and ln.strip().endswith('PTI')]
                    return shown, crashed, fs.boundary

                shown_ok, crashed, nb = run_script(None)
                if crashed or len(shown_ok) != 1:
                    res.violate(PROP, 'C15/receive-script-shows-no-address', 'a completed run showed %d addresses' % len(shown_ok))
                    break
                final_snap = fs.snapshot()
                for pt in list(range(nb)) + [None]:
                    fs.restore(snap0)
                    shown1, crashed, _ = run_script(pt)
                    if pt is not None:
                        res.bump('fault:crash_in_receive_script')
                    # the next caller
                    shown2, crashed2, _ = run_script(None)
                    if crashed2 or len(shown2) != 1:
                        res.violate(PROP, 'C15/reload-fails-after-crash', 'the receive script does not complete after a crash at boundary %r of '
                                    'the previous run\'s save (%s)' % (pt, crashed2 or 'no address shown'))
                        break
                    if unused_in_file >= 2 and shown1 and shown1[0] == shown2[0]:
                        res.violate(PROP, 'C15/key-handed-out-twice',
                                    'the receive script showed an address, %s, and the next run of the script showed the same address '
                                    'although %d unused keys remain' % ('crashed at boundary %r of its save' % (pt,) if pt is not None else 'completed',
                                                                         unused_in_file))
                        break
                    if shown1:
                        res.bump('probe:address_shown_before_crash' if pt is not None and crashed else 'receive_script_runs')
                if res.violations:
                    break
                fs.restore(final_snap)
                wallet = open_or_init_wallet()
                outstanding = {k for k in all_pubs if human(k) in _parse(final_snap['wallet.json'])[2]}
                reused = {}
                last_handout = None
                res.distinct.add('receive_script:%d' % nb)
                trace.add('receive_script', nb)
            elif kind == 'send_script':
                # skepticoin-send as its own process (real main(); chain, networking thread and sleep are stand-ins): the change key is
                # handed out and saved before the transaction is built. Whatever happens after the transaction has left the process
                # - an error from a peer's socket half-way through the broadcast, an error while monitoring, ^C - the key that
                # receives its change must not be handed out again by a later start.
                if not fs.isfile('wallet.json'):
                    continue
                import io
                import sys
                import contextlib
                import types
                import skepticoin.scripts.send as send_mod
                save_wallet(wallet)
                fault = op.get('fault', 'interrupt')
                sent = []

                class _NM:
                    def broadcast_transaction(self, tx):
                        sent.append(tx)
                        if fault == 'broadcast_error':
                            raise BrokenPipeError(32, 'Broken pipe')        # the second peer's socket fails; the first got it

                class _Thread:
                    def __init__(self):
                        self.local_peer = types.SimpleNamespace(network_manager=_NM(), chain_manager=types.SimpleNamespace(coinstate=sim.cs))

                    def stop(self):
                        pass

                    def join(self):
                        pass

                def _sleep(n):
                    if fault == 'monitor_error':
                        raise OSError(5, 'Input/output error')
                    raise KeyboardInterrupt()
                names = ['check_chain_dir', 'read_chain_from_disk', 'start_networking_peer_in_background', 'wait_for_fresh_chain', 'sleep']
                saved_names = {n_: getattr(send_mod, n_) for n_ in names}
                send_mod.check_chain_dir = lambda: None
                send_mod.read_chain_from_disk = lambda: sim.cs
                send_mod.start_networking_peer_in_background = lambda args, cs: _Thread()
                send_mod.wait_for_fresh_chain = lambda *a, **k: None
                send_mod.sleep = _sleep
                argv = sys.argv
                sys.argv = ['skepticoin-send', str(op.get('amount', 1)), 'sashimi', 'SKE' + human(W.key(5).pub) + 'PTI']
                outcome = 'completed'
                try:
                    with contextlib.redirect_stdout(io.StringIO()):
                        send_mod.main()
                except (Exception, SystemExit) as e:
                    outcome = type(e).__name__
                finally:
                    sys.argv = argv
                    for n_, v_ in saved_names.items():
                        setattr(send_mod, n_, v_)
                res.bump('send_script_runs')
                res.bump('send_script:%s:%s' % (fault, 'sent' if sent else 'nothing_sent'))
                wallet = open_or_init_wallet()
                if sent:
                    res.bump('probe:send_script_fault_after_the_transaction_left')
                    change_keys = [o.public_key.public_key for o in sent[0].outputs if o.public_key.public_key in all_pubs]
                    back = [k_ for k_ in change_keys if k_ in wallet.unused_public_keys]
                    if back:
                        res.violate(PROP, 'C15/key-handed-out-twice', 'the send script (%s, ended with %s) broadcast a transaction whose change goes to a '
                                    'wallet key; after the script that key is among the unused keys of wallet.json again: the next hand-out may '
                                    'return it' % (fault, outcome))
                        break
                final_snap = fs.snapshot()
                outstanding = {k for k in all_pubs if human(k) in _parse(final_snap['wallet.json'])[2]}
                reused = {}
                last_handout = None
                trace.add('send_script', fault, len(sent))
            elif kind == 'start_with_read_fault':
                # a start of a script on which reading the existing wallet fails once (a transient I/O error): whatever that
                # start does, the wallet on disk stays what it was, and the next start loads it
                if not fs.isfile('wallet.json'):
                    continue
                before = fs.files['wallet.json']
                real_wallet_cls = utils_mod.Wallet

                class SmallWallet2(real_wallet_cls):
                    def generate_keys(self, n):
                        return real_wallet_cls.generate_keys(self, min(n, 3))
                utils_mod.Wallet = SmallWallet2
                fs.read_fault = ('wallet.json', op.get('errno', 5))
                try:
                    with env.quiet():
                        open_or_init_wallet()
                    res.bump('probe:start_survived_a_read_fault')
                except OSError:
                    res.bump('probe:start_failed_on_a_read_fault')
                except Exception as e:
                    res.bump('start_failed_otherwise:%s' % type(e).__name__)
                finally:
                    utils_mod.Wallet = real_wallet_cls
                    fs.read_fault = None
                res.bump('fault:read_fault_at_start')
                if fs.files.get('wallet.json') != before:
                    res.violate(PROP, 'C15/wallet-file-changed-by-a-failed-start', 'a start on which reading wallet.json failed once (errno %d) '
                                'left a different wallet.json behind (%d bytes before, %s after)' % (
                                    op.get('errno', 5), len(before), len(fs.files.get('wallet.json') or b'')))
                    break
                try:
                    w_again = open_or_init_wallet()
                except Exception as e:
                    res.violate(PROP, 'C15/reload-fails-after-crash', 'the start after a read fault raises %s' % type(e).__name__)
                    break
                if not _same(_wallet_tuple(w_again), _parse(before)):
                    res.violate(PROP, 'C15/load-differs-from-file', 'the start after a read fault loads another wallet')
                    break
            elif kind == 'first_start':
                # the very first start of a script in an empty directory creates the wallet: a crash at any boundary leaves either
                # no wallet.json or the complete one, and the next start goes on from there
                snap_main = fs.snapshot()
                real_wallet_cls = utils_mod.Wallet
                nkeys_ = op.get('keys', 3)

                class SmallWallet(real_wallet_cls):
                    def generate_keys(self, n):          # (10,000 keys in the script; the count is not what is examined here)
                        return real_wallet_cls.generate_keys(self, min(n, nkeys_))
                utils_mod.Wallet = SmallWallet
                try:
                    fs.restore({})
                    fs.crash_at = None
                    fs.reset_boundaries()
                    entropy.install(script.get('seed', 0) + 77)
                    with env.quiet():
                        w_first = open_or_init_wallet()
                    nb_ = fs.boundary
                    log_ = list(fs.log)
                    want_t = _wallet_tuple(w_first)
                    if check_file_is(fs.snapshot(), [want_t], 'after a completed first start') is False:
                        break
                    pts_ = []
                    for k_ in range(nb_):
                        pts_.append(k_)
                        if log_[k_][0] == 'write' and log_[k_][2] and log_[k_][2] > 1:
                            pts_.append((k_, 'torn', log_[k_][2] // 2))
                    for pt in pts_:
                        fs.restore({})
                        fs.crash_at = pt
                        fs.reset_boundaries()
                        entropy.install(script.get('seed', 0) + 77)
                        try:
                            with env.quiet():
                                open_or_init_wallet()
                            raise RuntimeError('harness: crash point %r not reached' % (pt,))
                        except Crash:
                            pass
                        fs.crash_at = None
                        res.bump('fault:crash_in_first_start')
                        got = check_file_is(fs.snapshot(), [None, want_t], 'crash at boundary %r (%s) of the first start' % (
                            pt, log_[pt[0] if isinstance(pt, tuple) else pt][0]))
                        if got is False:
                            break
                        try:
                            entropy.install(script.get('seed', 0) + 78)
                            with env.quiet():
                                open_or_init_wallet()
                        except Exception as e:
                            res.violate(PROP, 'C15/reload-fails-after-crash', 'after a crash at boundary %r of the first start the next start raises %s' % (
                                pt, type(e).__name__))
                            break
                    res.distinct.add('first_start:%d:%d' % (nb_, nkeys_))
                finally:
                    utils_mod.Wallet = real_wallet_cls
                    fs.crash_at = None
                    fs.restore(snap_main)
                    entropy.install(script.get('seed', 0))
                if res.violations:
                    break
            elif kind == 'miner_session':
                if not fs.isfile('wallet.json'):
                    continue
                ok_, why_ = _miner_session(op, fs, sim, wallet, res, trace, save_wallet, open_or_init_wallet, all_pubs)
                if not ok_:
                    break
                wallet = open_or_init_wallet()
                outstanding = {k for k in all_pubs if human(k) in _parse(fs.files['wallet.json'])[2]}
                reused = {}
                last_handout = None
            elif kind == 'balance':
                head = sim.chain.blocks[sim.cs.current_chain_hash]
                want = sum(v for v, pub in head.utxo.values() if pub in wallet.keypairs)
                got = wallet.get_balance(sim.cs)
                res.bump('balance_reads')
                if got != want:
                    res.violate(PROP, 'C15/balance-differs', 'reported %d, unspent outputs paying wallet keys total %d' % (got, want))
                    break
        # final: save -> load reproduces the wallet (mappings exact, unused keys as a multiset)
        if not res.violations and fs.isfile('wallet.json'):
            t_mem = _wallet_tuple(wallet)
            save_wallet(wallet)
            w3 = open_or_init_wallet()
            if not _same(_wallet_tuple(w3), t_mem):
                res.violate(PROP, 'C15/save-load-not-faithful', 'save then load does not reproduce the wallet')
    finally:
        entropy.uninstall()
        wallet_mod.random = saved_wrandom
        for mod, (o, osmod) in saved.items():
            if o is None:
                mod.__dict__.pop('open', None)
            else:
                mod.open = o
            mod.os = osmod
    res.digest = trace.digest()
    return res


def describe():
    return {
        'rule': 'one run = one wallet script; inside it every save is re-executed once per durable boundary with a crash '
                'there (plus three torn variants per raw write); evaluations = scripts, counters.crash_points = crashes '
                'injected; distinct = (boundaries per save, raw-write size, annotated keys); non-trivial = save with at least '
                'truncate + write + close + rename',
        'exhaustive_note': 'all crash points of every save of every sampled script',
        'components': {'real': ['skepticoin.wallet (Wallet, save_wallet, dump/load, get_balance)', 'skepticoin.scripts.utils.open_or_init_wallet',
                                'skepticoin.coinstate/balances for balances'],
                       'stub': ['file system: SimFS with process-crash semantics (builtin open / os.replace reached through module attributes)',
                                'ECDSA key entropy seeded']},
        'assumptions': ['process crash, not power loss', 'hand-outs after the last completed save are forgotten by a restart (scripts save before printing an address)'],
        'expected_probes': ['fault:read_fault_at_start', 'saves', 'loads', 'handouts', 'restores', 'fault:crash_in_save', 'fault:torn_write',
                            'reloads_after_crash', 'balance_reads', 'payments', 'probe:handout_with_no_unused_keys_left'],
    }
