"""C03 — ledger state at a block is a function of that block's chain alone (arrival order, competing
forks and reorganisations do not matter); balances = sum/list of unspent outputs per key; snapshots immutable."""
from simkit.core import Streams, Result, Trace
from seams import env
from checks import ledger_common as LC

PROP = 'C03'
LEVEL = 'exploration'
BUDGET = {
    'quick': {'runs': 800, 'wall': 150, 'chunk': 10},
    'thorough': {'runs': 60000, 'wall': 1500, 'chunk': 50},
}
MANIFEST = {
    'engine': 'ledger-sim',
    'level': 'exploration',
    'text': 'Seeded search: a block tree with transactions (forks whose sides spend differently, the same payment on both '
            'sides, reward spends) is generated, then delivered to 3-6 independent receivers in different seeded '
            'parent-before-child orders through both add paths, interleaved with reads of the per-block unspent set, the '
            'lazily cached per-key balances and the wallet balance on old and new snapshots; every stored block in every '
            'receiver is compared with a replay-from-root reference ledger, and every snapshot taken earlier is '
            're-fingerprinted after later additions. Sampling over trees, orders and read timings.'
            ' Half of the receivers install every state in a real ChainManager (set_coinstate) and read what it serves; a wallet builds spends against current and old snapshots between deliveries and balances/references are re-checked right after.'
            ' The key pool contains a mirror-image pair (same x coordinate); worthless outputs are listed like any other.',
    'note': 'Trusted: reference replay (refmodel/rules.py), repo serializers for ids; scrypt stand-in; hollow base or genesis root.',
}


def generate(seed, tier):
    rng = Streams(seed).get('gen')
    base = rng.choice(['hreal', 'hreal', 'hlow'])
    n = rng.randint(4, 10) if base == 'hlow' else rng.randint(6, 24 if tier == 'quick' else 40)
    ops = []
    for i in range(n):
        m = LC.gen_mine(rng, latest_bias=0.5)
        m['clock'] = 0
        m['via'] = 'memory'
        if i > 0 and rng.random() < 0.2:
            # the same payments included on the other side of a fork: a sibling of an earlier block
            j = rng.randrange(i)
            if ops[j]['txs']:
                m['txs'] = ops[j]['txs']
                m['tip'] = j if ops[j]['tip'] == -1 else ops[j]['tip']
        ops.append(m)
    k = rng.randint(3, 6)
    receivers = []
    for r in range(k):
        receivers.append({'order': rng.getrandbits(32), 'paths': rng.getrandbits(32),
                          'reads': rng.getrandbits(32), 'read_rate': rng.choice([0.0, 0.2, 0.5, 1.0]),
                          'clone_at': rng.randrange(n + 1),
                          # the state is installed in a node's chain manager after every block and read from there
                          'served': rng.random() < 0.5,
                          # a wallet builds spends against the snapshots it reads (reading must not change them)
                          'spends': rng.random() < 0.4})
    return {'config': {'base': base, 'hard': False, 'receivers': receivers, 'wallet_keys': rng.randrange(1, 1 << 12)},
            'ops': ops}


def _check_block(res, cs, chain, bid, what):
    from engines.ledger import compare_utxo
    if not compare_utxo(cs, chain, bid):
        res.violate(PROP, 'C03/unspent-set-differs-from-replay', '%s: unspent set at %s' % (what, bid.hex()[:12]))
        return False
    return True


def _check_balances(res, cs, chain, bid, what):
    rb = chain.blocks[bid]
    want = {}
    for ref, (value, pub) in rb.utxo.items():
        w = want.setdefault(pub, [0, set()])
        w[0] += value
        w[1].add(ref)
    try:
        got = cs.public_key_balances_by_hash[bid]
    except Exception as e:
        res.violate(PROP, 'C03/balance-read-raised', '%s: reading the per-key balances at stored block %s raised %s' % (
            what, bid.hex()[:12], type(e).__name__))
        return False
    seen = set()
    for pk, bal in got.items():
        pub = pk.public_key
        seen.add(pub)
        refs = [(r.hash, r.index) for r in bal.output_references]
        w = want.get(pub, [0, set()])
        if bal.value != w[0] or len(refs) != len(set(refs)) or set(refs) != w[1]:
            res.violate(PROP, 'C03/balance-differs-from-unspent-outputs',
                        '%s: key %s at %s: reported value %d refs %d, unspent outputs say value %d refs %d' % (
                            what, pub.hex()[:8], bid.hex()[:12], bal.value, len(refs), w[0], len(w[1])))
            return False
    for pub, w in want.items():
        if pub not in seen and w[1]:        # (also a key whose only unspent outputs are worth nothing is listed with them)
            res.violate(PROP, 'C03/balance-differs-from-unspent-outputs',
                        '%s: key %s has unspent outputs but no balance entry at %s' % (what, pub.hex()[:8], bid.hex()[:12]))
            return False
    return True


def execute(script):
    import random
    env.setup()
    env.use_fast_scrypt(True)
    from engines.ledger import LedgerSim, full_fp
    from skepticoin.wallet import Wallet, create_spend_transaction
    from world import ledger as W
    res = Result()
    trace = Trace()
    cfg = script['config']
    builder = LedgerSim(cfg, PROP, res, trace)
    root_cs = builder.cs
    builder.run(script['ops'])
    if builder.dead or res.violations:
        res.bump('builder_stopped')
    chain = builder.chain
    blocks = [builder.block_objs[b] for b in builder.stored[1:]]
    if len(blocks) < 2:
        res.digest = trace.digest()
        return res
    wk = [W.key(i) for i in range(12) if cfg.get('wallet_keys', 1) >> i & 1] or [W.key(0)]
    wallet = Wallet({k.pub: k.priv for k in wk}, [k.pub for k in wk[: len(wk) // 2]],
                    {k.pub: 'x' for k in wk[len(wk) // 2:]})
    wpubs = {k.pub for k in wk}
    forked = any(chain.blocks[b].children > 1 for b in builder.stored)
    if forked:
        res.bump('probe:tree_has_fork')
    from refmodel import rules as _r
    txc = {}
    for b in blocks:
        for t in b.transactions[1:]:
            txc[_r.tx_id(t)] = txc.get(_r.tx_id(t), 0) + 1
    if any(c > 1 for c in txc.values()):
        res.bump('probe:same_transaction_on_two_forks')

    served_peers = []
    for rn, rc in enumerate(cfg['receivers']):
        rng_o = random.Random(rc['order'])
        rng_p = random.Random(rc['paths'])
        rng_r = random.Random(rc['reads'])
        cs = root_cs
        cm = None
        if rc.get('served'):
            from skepticoin.networking.local_peer import LocalPeer
            lp = LocalPeer()
            served_peers.append(lp)
            cm = lp.chain_manager
            cm.set_coinstate(cs)
            res.bump('probe:receiver_served_by_chain_manager')
        have = {builder.stored[0]}
        pending = list(blocks)
        snaps = []
        delivered = 0
        while pending:
            ready = [b for b in pending if b.header.summary.previous_block_hash in have]
            b = ready[rng_o.randrange(len(ready))]
            pending.remove(b)
            bid = builder.chain.blocks  # noqa
            from refmodel import rules
            bid = rules.block_id(b)
            try:
                head_before = cs.current_chain_hash
                if rng_p.random() < 0.5:
                    cs = cs.add_block(b, b.header.summary.timestamp)
                    res.bump('delivered_validated')
                    validated = True
                else:
                    cs = cs.add_block_no_validation(b)
                    res.bump('delivered_novalidation')
                    validated = False
                if cm is not None:
                    try:
                        cm.set_coinstate(cs, validated=validated)
                    except Exception as e2:
                        res.violate(PROP, 'C03/installing-state-raised', 'receiver %d: installing the state after an arrival in the '
                                    'node\'s chain manager raised %s' % (rn, type(e2).__name__))
                        break
                    cs = cm.coinstate            # what the node reports
                    if cs.current_chain_hash != head_before and b.header.summary.previous_block_hash != head_before:
                        res.bump('probe:served_state_reorganised')
            except Exception as e:
                # the same block was accepted on the builder's arrival order
                res.violate(PROP, 'C03/block-not-addable-in-another-arrival-order',
                            'receiver %d: a block of the tree (accepted in the order it was built) raised %s when its turn came in '
                            'another parent-before-child order' % (rn, type(e).__name__))
                break
            have.add(bid)
            delivered += 1
            trace.add('r', rn, bid)
            if delivered == rc['clone_at'] or rng_r.random() < 0.15:
                if len(snaps) < 5:
                    snaps.append((cs, full_fp(cs), sorted(have)))
            if rng_r.random() < rc['read_rate']:
                # reads fill the lazily computed balance cache at seeded moments, on new and old snapshots
                target_cs = cs if (not snaps or rng_r.random() < 0.6) else snaps[rng_r.randrange(len(snaps))][0]
                ids = sorted(target_cs.block_by_hash.keys())
                rid = ids[rng_r.randrange(len(ids))]
                res.bump('interleaved_reads')
                if rc.get('spends'):
                    hb0 = chain.blocks[target_cs.current_chain_hash]
                    have_now = sum(v for (v, pub) in hb0.utxo.values() if pub in wpubs)
                    amount = max(1, int(have_now * rng_r.choice([0.1, 0.5, 0.9, 1.0, 1.5])))
                    try:
                        create_spend_transaction(wallet, target_cs, amount, rng_r.choice([0, 1, 1000]), W.key(1).pk, wk[0].pk)
                        res.bump('probe:wallet_spend_built_against_snapshot')
                    except Exception:
                        res.bump('wallet_spend_refused')      # (what a spend must look like is C14's business)
                    if not _check_balances(res, target_cs, chain, target_cs.current_chain_hash, 'receiver %d, after the wallet built a spend' % rn):
                        break
                if not _check_block(res, target_cs, chain, rid, 'receiver %d read' % rn):
                    break
                if not _check_balances(res, target_cs, chain, rid, 'receiver %d read' % rn):
                    break
                try:
                    gb = wallet.get_balance(target_cs)
                except Exception as e:
                    res.violate(PROP, 'C03/balance-read-raised', 'receiver %d: the wallet balance at the head raised %s' % (rn, type(e).__name__))
                    break
                hb = chain.blocks[target_cs.current_chain_hash]
                want = sum(v for (v, pub) in hb.utxo.values() if pub in wpubs)
                if gb != want:
                    res.violate(PROP, 'C03/wallet-balance-differs', 'wallet balance %d, unspent outputs paying wallet keys %d' % (gb, want))
                    break
        if res.violations:
            break
        # final: every stored block, unspent set and balances, equals the replay
        for bid in sorted(cs.block_by_hash.keys()):
            if not _check_block(res, cs, chain, bid, 'receiver %d final' % rn):
                break
            if not _check_balances(res, cs, chain, bid, 'receiver %d final' % rn):
                break
        if res.violations:
            break
        if set(cs.block_by_hash.keys()) != set(builder.stored):
            res.violate(PROP, 'C03/stored-set-differs', 'receiver %d stores %d blocks, tree has %d' % (
                rn, len(cs.block_by_hash), len(builder.stored)))
            break
        for scs, fp, ids in snaps:
            if full_fp(scs) != fp or sorted(scs.block_by_hash.keys()) != ids:
                res.violate(PROP, 'C03/earlier-snapshot-changed', 'receiver %d: a snapshot changed after later additions' % rn)
                break
            res.bump('snapshots_rechecked')
        if res.violations:
            break
        res.distinct.add('order:%d:%08x:%d' % (len(blocks), rc['order'], rc['paths'] & 0xffff))
    for lp in served_peers:
        try:
            lp.selector.close()
        except Exception:
            pass
    res.events += len(blocks) * len(cfg['receivers'])
    res.digest = trace.digest()
    return res


def describe():
    return {
        'rule': 'one run = one generated block tree with transactions delivered to 3-6 receivers; distinct = (tree size, '
                'arrival-order seed, path seed) per receiver; non-trivial = tree of at least 2 blocks beyond the root',
        'components': LC.COMPONENTS,
        'assumptions': ['reference ledger is a replay from the root with plain dicts', 'scrypt stand-in'],
        'expected_probes': ['probe:tree_has_fork', 'interleaved_reads', 'snapshots_rechecked', 'delivered_validated',
                            'delivered_novalidation', 'probe:reorganisation', 'probe:same_transaction_on_two_forks'],
    }
