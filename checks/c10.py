"""C10 — synchronisation converges and relay terminates (2-4 real nodes on the simulated network)."""
import os

from simkit.core import Streams, Result
from seams import env
from checks import ledger_common as LC

PROP = 'C10'
LEVEL = 'exploration'
BUDGET = {
    'quick': {'runs': 2400, 'wall': 170, 'chunk': 10},
    'thorough': {'runs': 20000, 'wall': 1700, 'chunk': 4},
}
MANIFEST = {
    'engine': 'net-sim (2-4 real nodes)',
    'level': 'exploration',
    'text': 'Two to four real LocalPeers, each with its own managers, real store, clock skew and peer book, on a seeded '
            'topology (pair, line, triangle, star, ring) over the simulated network; every node starts with its own valid, '
            'possibly forked chain from the common genesis (fork depth inside and beyond the locator\'s dense range, equal '
            'heights, a node at genesis only, stale and fresh heads, transactions on the branches; chains beyond one '
            'inventory batch in the thorough tier). The seeded scheduler decides every loop iteration order, latency and '
            'fragmentation. A fault-free batch and a fault batch (connection resets, partitions and heals, slow nodes, '
            'restarts from the store, clock skew <= 10 s; all faults stop at a seeded time). Safety at every step: no '
            'exception leaves a node\'s loop, at most one relay per node incarnation and id. Bounded liveness once faults '
            'stopped, with the bound computed from the code\'s own timers: every head reaches the greatest height, every '
            'node holds the complete chain of its head; after a tie-breaking block a broadcast transaction reaches every '
            'pool; afterwards no block or transaction data message is sent any more.'
            ' A quarter of the networks put all nodes on one host (ports differ); stars may have every spoke behind NAT so that the hub is the only path.'
            ' Branches may contain a block of (nearly) the maximum size.'
            " The world builder keeps a block that the reference holds valid even when the tree's own validation refuses it (trusted history), so that the nodes have to exchange it: blocks of exactly the maximum size are part of the starting chains.",
    'note': 'Trusted: simulated TCP/selector/clock, the liveness bound formula (DESIGN 6.C10), history below block 1 is a '
            'trusted easy-target block (bulk download never validates in chain). Clock skew above 10 s legitimately rejects '
            'fresh blocks and is excluded.',
}

TOPOLOGIES = ['pair', 'line', 'triangle', 'star', 'ring']


def generate(seed, tier):
    rng = Streams(seed).get('gen')
    n = rng.choice([2, 2, 3, 3, 3, 4])
    topo = 'pair' if n == 2 else rng.choice(['line', 'triangle', 'star'] if n == 3 else ['line', 'star', 'ring'])
    long_chain = tier == 'thorough' and rng.random() < 0.03
    prefix = rng.randint(0, 30)
    branches = []
    for i in range(rng.randint(1, 3)):
        depth_kind = rng.choice(['short', 'short', 'mid', 'deep'])
        ln = {'short': rng.randint(0, 9), 'mid': rng.randint(10, 40), 'deep': rng.randint(41, 90)}[depth_kind]
        if long_chain and i == 0:
            ln = rng.randint(501, 700)
        branches.append({'len': ln, 'txs': rng.random() < 0.4})
        if ln > 0 and rng.random() < 0.025:
            branches[-1].update({'fat_at': rng.randrange(ln), 'fat_short': rng.choice([0, 0, 1, 31, 32, 500])})
    fresh = rng.random() < 0.4
    nodes = []
    for i in range(n):
        nodes.append({'branch': rng.randrange(len(branches) + 1) - 1,      # -1: prefix only
                      'cut': rng.choice([0, 0, 0, 1, 3]),                      # blocks missing from the end of its branch
                      'extra_branches': rng.random() < 0.2,
                      'skew_ms': rng.choice([0, 0, 1000, -2000, 5000, -9000, 9000]),
                      'genesis_only': rng.random() < 0.12})
    # a node behind NAT: it dials out, nobody can dial it and nobody learns its address from peer exchange
    if topo in ('pair', 'line', 'star') and rng.random() < 0.35:
        nodes[n - 1]['listen'] = False
        if topo == 'star' and rng.random() < 0.6:
            # every spoke is behind NAT: the hub is the only path between them for as long as the run lasts
            for i in range(1, n):
                nodes[i]['listen'] = False
    silent = {'node': rng.randrange(n), 'blocks': rng.randint(1, 3)} if rng.random() < 0.5 else None
    same_host = rng.random() < 0.25     # several nodes on one machine / behind one address: they differ in port only
    faulty = rng.random() < 0.5
    faults = []
    t_stop = 0
    if faulty:
        t = 0
        for _ in range(rng.randint(1, 6)):
            t += rng.choice([200, 1000, 3000, 10_000, 40_000])
            kind = rng.choice(['reset', 'reset', 'partition', 'slow', 'restart', 'reset_mid'])
            faults.append({'at': t, 'kind': kind, 'node': rng.randrange(n), 'dur': rng.choice([2000, 20_000, 90_000]),
                           'a': rng.randrange(1000)})
        t_stop = t + 1000
    return {'config': {'n': n, 'topology': topo, 'prefix': prefix, 'branches': branches, 'fresh': fresh, 'nodes': nodes,
                       'faulty': faulty, 't_stop': t_stop, 'silent_growth': silent, 'same_host': same_host, 'tx_spec': LC.gen_tx_spec(rng), 'origin': rng.randrange(n),
                       'profile': {'lat_max': rng.choice([5, 50, 200, 800])}},
            'ops': faults}


def neighbours(topo, n, i):
    if topo == 'pair':
        return [1 - i] if i == 1 else []
    if topo == 'line':
        return [i - 1] if i > 0 else []
    if topo == 'triangle':
        return [(i + 1) % n]
    if topo == 'star':
        return [0] if i > 0 else []
    return [(i + 1) % n]      # ring


def execute(script):
    import random
    env.setup()
    env.use_fast_scrypt(True)
    from engines.ledger import LedgerSim
    from seams.net import Kernel, SimNode, Shims, EPOCH, EventStorm
    from refmodel import rules
    from world import ledger as W
    import skepticoin.blockstore as bs
    from skepticoin.coinstate import CoinState
    from skepticoin.scripts.utils import read_chain_from_disk
    from skepticoin.networking import messages as M
    from simkit.core import Trace

    res = Result()
    cfg = script['config']
    n = cfg['n']
    # ---- world: a tree with a common prefix and branches; timestamps end shortly before EPOCH
    sim = LedgerSim({'base': 'hlow_easy', 'trusted_build': True}, PROP, res, Trace())
    total = cfg['prefix'] + max([b['len'] for b in cfg['branches']] + [0])
    step = 60 if total < 300 else 10
    t0 = EPOCH - 400 - (total + 2) * step
    ts = t0
    for i in range(cfg['prefix']):
        ts += step
        sim.op_mine({'op': 'mine', 'tip': -1, 'txs': [], 'miner': i % 12, 'ts_abs': ts, 'clock': 0, 'data': ''})
    fork_idx = len(sim.stored) - 1
    fork_ts = ts
    branch_tips = []
    for bi, br in enumerate(cfg['branches']):
        tip = fork_idx
        ts = fork_ts
        ids = []
        for j in range(br['len']):
            ts += step
            txs = [{'ins': [j + bi], 'outs': [[j, 1], [j + 1, 2]], 'fee_ppm': 1000 * (j % 3)}] if br['txs'] and j % 4 == 1 else []
            if cfg['fresh'] and j == br['len'] - 1:
                ts = max(ts, EPOCH - 30)
            n0 = len(sim.stored)
            m_ = {'op': 'mine', 'tip': tip, 'txs': txs, 'miner': (bi * 5 + j) % 12, 'ts_abs': ts, 'clock': 0}
            if br.get('fat_at') is not None and j == br['fat_at'] % br['len']:
                m_.update({'fat': True, 'fat_short': br.get('fat_short', 0)})       # a block of (nearly) the maximum size on the wire
            sim.op_mine(m_)
            if len(sim.stored) == n0 or sim.dead:
                break
            tip = len(sim.stored) - 1
            ids.append(sim.stored[-1])
        branch_tips.append(ids)
    if sim.dead:
        res.bump('builder_stopped')
        return res
    chain = sim.chain
    prefix_ids = sim.stored[:fork_idx + 1]

    def state_for(nc):
        ids = list(prefix_ids)
        if nc['genesis_only']:
            ids = sim.stored[:2]
        elif nc['branch'] >= 0:
            b = branch_tips[nc['branch'] % len(branch_tips)]
            ids += b[:max(0, len(b) - nc['cut'])]
            if nc['extra_branches']:
                for ob in branch_tips:
                    if ob is not b:
                        ids += ob[:len(ob) // 2]
        cs = CoinState.zero()
        for bid in ids[1:]:
            if bid not in cs.block_by_hash:
                cs = cs.add_block_no_validation(sim.block_objs[bid])
        return cs

    def addr_of(i):
        return ('10.0.0.1', 2412 + i) if cfg.get('same_host') else ('10.0.0.%d' % (i + 1), 2412)

    k = Kernel(script.get('seed', 0), cfg.get('profile'))
    k.EVENT_BUDGET = 400_000 + 3_000 * len(sim.stored)      # a healthy run needs a few thousand events
    trace = k.trace
    sh = Shims(k)
    sh.install()
    nodes = []
    relays = {}            # (node name, incarnation, kind, id) -> count
    data_sent = {'n': 0, 'last_at': 0}
    origin_call = {'on': False}
    try:
        for i in range(n):
            path = os.path.join(env.scratch_dir(), 'c10-%d-%d.db' % (os.getpid(), i))
            for sfx in ('', '-journal'):
                try:
                    os.remove(path + sfx)
                except OSError:
                    pass
            nd = SimNode(k, 'n%d' % i, addr_of(i)[0], port=addr_of(i)[1], store_path=path, skew_ms=cfg['nodes'][i]['skew_ms'])
            nodes.append(nd)

        def instrument(nd):
            nm = nd.lp.network_manager
            ob, ot = nm.broadcast_block, nm.broadcast_transaction
            inc = nd.incarnation

            def bb(block, *a_, **kw_):
                key = (nd.name, inc, 'block', rules.block_id(block))
                relays[key] = relays.get(key, 0) + 1
                return ob(block, *a_, **kw_)

            def bt(tx, *a_, **kw_):
                if not origin_call['on']:        # the originator's own broadcast is not a relay
                    key = (nd.name, inc, 'tx', rules.tx_id(tx))
                    relays[key] = relays.get(key, 0) + 1
                return ot(tx, *a_, **kw_)
            nm.broadcast_block, nm.broadcast_transaction = bb, bt
            osend = nm.broadcast_message

            def bm(message, *a_, **kw_):
                data_sent['n'] += 1
                data_sent['last_at'] = k.now
                return osend(message, *a_, **kw_)
            nm.broadcast_message = bm

        start_max = 0
        for i, nd in enumerate(nodes):
            cs = state_for(cfg['nodes'][i])
            start_max = max(start_max, cs.head().height)
            peers = [addr_of(j) for j in neighbours(cfg['topology'], n, i)]
            nd.boot(cs, peers=peers, listen=cfg['nodes'][i].get('listen', True))
            instrument(nd)
        target_height = start_max

        def loop_errors():
            for nd in nodes:
                if nd.loop_error:
                    res.violate(PROP, 'C10/exception-left-event-loop', '%s: %s: %s' % ((nd.name,) + nd.loop_error[:2]))
                    return True
            return False

        def relay_violation():
            for key, c in relays.items():
                if c > 1:
                    res.violate(PROP, 'C10/relayed-more-than-once', '%s relayed %s %s %d times in one incarnation' % (
                        key[0], key[2], key[3].hex()[:12], c))
                    return True
            return False

        k.guard = lambda: any(c > 1 for c in relays.values()) or any(nd.loop_error for nd in nodes)

        # ---- fault phase
        for f in script['ops']:
            if res.violations:
                break
            k.run(f['at'])
            if loop_errors():
                break
            nd = nodes[f['node'] % n]
            kind = f['kind']
            if kind in ('reset', 'reset_mid'):
                socks = [fo for fo in (nd.lp.selector.get_map().keys() if nd.lp else []) if getattr(fo, 'state', '') == 'established']
                if socks:
                    s = socks[f.get('a', 0) % len(socks)]
                    if kind == 'reset':
                        k.net.reset_connection(s, 'fault')
                    else:
                        s.reset_after_bytes = (s.peer.rx.sent if s.peer else 0) + 1 + f.get('a', 0) % 3000
                        res.bump('fault:reset_armed_mid_stream')
            elif kind == 'partition':
                if cfg.get('same_host'):
                    continue        # a partition is drawn between hosts
                k.partitions.append(frozenset([nd.host]))
                res.bump('fault:partition')
                k.at(k.now + f.get('dur', 2000), lambda p=k.partitions[-1]: k.heal(p))
            elif kind == 'slow':
                nd.slow = 20
                res.bump('fault:slow_node')
                k.at(k.now + f.get('dur', 2000), lambda x=nd: setattr(x, 'slow', 1.0))
            elif kind == 'restart':
                # the store keys a transaction to one block (known finding of C08): a node that stores two blocks sharing
                # a transaction reloads a damaged chain, so restarts are only injected where no transaction is shared
                seen_tx, shared = set(), False
                for b in nd.lp.chain_manager.coinstate.block_by_hash.values():
                    for t in b.transactions:
                        tid = rules.tx_id(t)
                        shared = shared or tid in seen_tx
                        seen_tx.add(tid)
                if shared:
                    res.bump('restart_skipped_shared_transaction')
                    continue
                nd.crash()
                bs.DefaultBlockStore.instance = bs.BlockStore(nd.store_path)
                try:
                    cs2 = read_chain_from_disk()
                finally:
                    bs.DefaultBlockStore.instance.close()
                    bs.DefaultBlockStore.instance = None
                k.current = nd
                try:
                    peers = [addr_of(j) for j in neighbours(cfg['topology'], n, f['node'] % n)]
                finally:
                    k.current = None
                nd.boot(cs2, peers=peers, listen=cfg['nodes'][f['node'] % n].get('listen', True))
                instrument(nd)
                res.bump('fault:restart')
        if res.violations:
            return res
        # ---- faults stop here: heal everything
        k.run(max(k.now, cfg.get('t_stop', 0)))
        k.heal()
        for nd in nodes:
            nd.slow = 1.0
            for fo in list(nd.lp.selector.get_map().keys()):
                if hasattr(fo, 'reset_after_bytes'):
                    fo.reset_after_bytes = None
            k.wake(nd, k.now)
        # bound from the code's own timers (DESIGN 6.C10)
        backoff = 0
        for nd in nodes:
            for p in nd.lp.network_manager.disconnected_peers.values():
                backoff = max(backoff, min(10 * 2 ** min(p.ban_score + 1, 12), 1800))
        blocks_total = len(sim.stored)
        L = 2 * (backoff + 127 + 180 + 60 * (n - 1) + 135 * (1 + blocks_total // 1000)) * 1000
        t_faults_stop = k.now

        def converged():
            return all(nd.lp.chain_manager.coinstate.head().height >= target_height for nd in nodes)

        def storm():
            return any(c > 1 for c in relays.values()) or any(nd.loop_error for nd in nodes)

        k.run(k.now + L, stop=lambda: converged() or storm())
        if loop_errors() or relay_violation():
            return res
        heights = [nd.lp.chain_manager.coinstate.head().height for nd in nodes]
        if not converged():
            res.violate(PROP, 'C10/heads-did-not-converge',
                        'after faults stopped and %d virtual s (bound from the code\'s timers) head heights are %s; greatest height '
                        'any node started with is %d (topology %s)' % (L // 1000, heights, target_height, cfg['topology']))
            return res
        res.bump('converged')
        res.bump('probe:convergence_virtual_ms', k.now - t_faults_stop)
        if max(heights) > target_height:
            res.violate(PROP, 'C10/height-above-any-start', 'a head is higher than any chain that existed')
            return res
        # every node holds the complete chain of its head
        for nd in nodes:
            cs = nd.lp.chain_manager.coinstate
            cur = cs.head()
            cnt = 0
            while cur.previous_block_hash != b'\x00' * 32:
                if cur.previous_block_hash not in cs.block_by_hash:
                    res.violate(PROP, 'C10/incomplete-chain', '%s lacks an ancestor of its head' % nd.name)
                    return res
                cur = cs.block_by_hash[cur.previous_block_hash]
                cnt += 1
        # ---- silent growth: one node obtains further blocks without announcing them (as after a bulk download from a
        #      peer outside this network); the others have to find them by polling, also peers that answered "nothing new" before
        if cfg.get('silent_growth'):
            k.run(k.now + 5000)
            g = nodes[cfg['silent_growth'].get('node', 0) % n]
            cmg = g.lp.chain_manager
            k.current = g
            bs.DefaultBlockStore.instance = g.store
            try:
                for j in range(cfg['silent_growth'].get('blocks', 1)):
                    csg = cmg.coinstate
                    now_g = int(g.clock_s())
                    if csg.head().timestamp + 1 > now_g + 25:
                        break
                    nb = W.mine_honest(csg, [], W.key(9 + j), max(csg.head().timestamp + 1, now_g - 5 + j))
                    cmg.set_coinstate(csg.add_block(nb, now_g))
                    g.lp.disk_interface.save_block(nb)
                    g.lp.disk_interface.flush_blocks()
                    target_height = max(target_height, nb.height)
            finally:
                k.current = None
            res.bump('probe:silent_growth')
            t_grow = k.now
            k.run(k.now + L, stop=lambda: converged() or storm())
            if loop_errors() or relay_violation():
                return res
            if not converged():
                res.violate(PROP, 'C10/heads-did-not-converge',
                            'blocks that one node obtained without announcing them were not fetched by the others within %d virtual s: '
                            'head heights %s, greatest %d (topology %s)' % (
                                L // 1000, [nd.lp.chain_manager.coinstate.head().height for nd in nodes], target_height, cfg['topology']))
                return res
            res.bump('probe:silent_growth_found_ms', k.now - t_grow)

        # ---- tie-break: one node mines a block, everyone must adopt it
        k.run(k.now + 3000)
        miner = nodes[cfg.get('origin', 0) % n]
        cm = miner.lp.chain_manager
        cs = cm.coinstate
        hb = cs.head()
        now_s = int(miner.clock_s())
        blk = W.mine_honest(cs, [], W.key(7), max(hb.timestamp + 1, now_s))
        k.current = miner
        bs.DefaultBlockStore.instance = miner.store
        try:
            cs2 = cs.add_block(blk, now_s)
            cm.set_coinstate(cs2)
            miner.lp.network_manager.broadcast_message(M.DataMessage(M.DATA_BLOCK, blk))
            miner.lp.disk_interface.save_block(blk)
            miner.lp.disk_interface.flush_blocks()
        finally:
            k.current = None
        new_head = blk.hash()
        Lp = 120_000 + 2 * 60_000 * (n - 1)
        k.run(k.now + Lp, stop=lambda: all(nd.lp.chain_manager.coinstate.current_chain_hash == new_head for nd in nodes) or storm())
        if loop_errors() or relay_violation():
            return res
        if not all(nd.lp.chain_manager.coinstate.current_chain_hash == new_head for nd in nodes):
            res.violate(PROP, 'C10/new-block-not-adopted', 'a block mined on the common greatest height did not become every '
                        'node\'s head within %d virtual s: heights %s' % (
                            Lp // 1000, [nd.lp.chain_manager.coinstate.head().height for nd in nodes]))
            return res
        res.bump('probe:shared_head_reached')
        # ---- a valid transaction broadcast by one node reaches every pool; then a pool with history: a pending
        #      transaction is overtaken by a conflicting one in the next block, and a later valid transaction that shares
        #      an input with the evicted one must still reach every pool
        origin = nodes[(cfg.get('origin', 0) + 1) % n]

        def ledger_at(cs):
            ref = rules.RefChain()
            path = []
            cur = cs.head()
            while True:
                path.append(cur)
                if cur.previous_block_hash == b'\x00' * 32:
                    break
                cur = cs.block_by_hash[cur.previous_block_hash]
            path.reverse()
            ref.add_root(path[0])
            for b_ in path[1:]:
                ref.add(b_)
            return ref.blocks[cs.current_chain_hash]

        def broadcast_and_wait(tx, what):
            tid = rules.tx_id(tx)
            k.current = origin
            origin_call['on'] = True
            try:
                origin.lp.network_manager.broadcast_transaction(tx)
            finally:
                origin_call['on'] = False
                k.current = None
            others = [nd for nd in nodes if nd is not origin]
            k.run(k.now + 120_000, stop=lambda: all(any(rules.tx_id(t) == tid for t in nd.lp.chain_manager.transaction_pool) for nd in others)
                  or storm())
            if loop_errors() or relay_violation():
                return False
            missing = [nd.name for nd in others if not any(rules.tx_id(t) == tid for t in nd.lp.chain_manager.transaction_pool)]
            if missing:
                res.violate(PROP, 'C10/transaction-did-not-reach-every-pool', 'after 120 virtual s the broadcast transaction (%s) is missing '
                            'from the pools of %s' % (what, missing))
                return False
            return True

        hb = ledger_at(origin.lp.chain_manager.coinstate)
        spendable = sorted(r for r, (v, pub) in hb.utxo.items() if W.key_by_pub(pub) is not None)
        if len(spendable) >= 2:
            i0 = cfg['tx_spec']['ins'][0] % len(spendable)
            r1, r2 = spendable[i0], spendable[(i0 + 1) % len(spendable)]
            (v1, p1), (v2, p2) = hb.utxo[r1], hb.utxo[r2]
            ts_tx = W.make_tx([r1, r2], [(v1 + v2 - 1, W.key(3))], [W.key_by_pub(p1), W.key_by_pub(p2)])
            if not broadcast_and_wait(ts_tx, 'first'):
                return res
            res.bump('probe:transaction_in_every_pool')
            # the next block (mined elsewhere, here by the harness on the first node) spends r1 differently
            k.run(k.now + 2000)
            cm = miner.lp.chain_manager
            cs = cm.coinstate
            tm = W.make_tx([r1], [(v1, W.key(5))], [W.key_by_pub(p1)])
            now_s = int(miner.clock_s())
            blk2 = W.mine_honest(cs, [tm], W.key(8), max(cs.head().timestamp + 1, now_s))
            k.current = miner
            bs.DefaultBlockStore.instance = miner.store
            try:
                cs3 = cs.add_block(blk2, now_s)
                cm.set_coinstate(cs3)
                miner.lp.network_manager.broadcast_message(M.DataMessage(M.DATA_BLOCK, blk2))
                miner.lp.disk_interface.save_block(blk2)
                miner.lp.disk_interface.flush_blocks()
            finally:
                k.current = None
            h2 = blk2.hash()
            k.run(k.now + Lp, stop=lambda: all(nd.lp.chain_manager.coinstate.current_chain_hash == h2 for nd in nodes) or storm())
            if loop_errors() or relay_violation():
                return res
            if not all(nd.lp.chain_manager.coinstate.current_chain_hash == h2 for nd in nodes):
                res.violate(PROP, 'C10/new-block-not-adopted', 'the second mined block did not become every node\'s head')
                return res
            k.run(k.now + 3000)
            t2 = W.make_tx([r2], [(v2, W.key(6))], [W.key_by_pub(p2)])
            if not broadcast_and_wait(t2, 'sharing an input with a transaction that the last block made invalid'):
                return res
            res.bump('probe:transaction_after_pool_history')
        # ---- relay traffic stops: let everything drain, then nothing but polls for a while
        k.run(k.now + 60_000, stop=storm)
        if loop_errors() or relay_violation():
            return res
        mark = data_sent['n']
        k.run(k.now + 200_000, stop=storm)
        if loop_errors() or relay_violation():
            return res
        if data_sent['n'] != mark:
            res.violate(PROP, 'C10/relay-traffic-does-not-stop', '%d block/transaction broadcasts were still made in a 200 s window '
                        'after everything had been delivered' % (data_sent['n'] - mark))
            return res
        res.bump('probe:relay_quiescent')
        forkd = [len(b) for b in branch_tips]
        res.distinct.add('net:%d:%s:%s:%s:%s:%s' % (n, cfg['topology'], sorted(min(x, 11) // 3 for x in forkd), cfg['faulty'], cfg['fresh'],
                                               cfg['nodes'][n - 1].get('listen', True)))
        if not cfg['nodes'][n - 1].get('listen', True):
            res.bump('probe:node_behind_nat')
        res.sample = {'nodes': n, 'topology': cfg['topology'], 'branch_lengths': forkd, 'prefix': cfg['prefix'],
                      'virtual_s_to_converge': (k.now - t_faults_stop) // 1000}
    except EventStorm as e:
        if not res.violations:
            res.violate(PROP, 'C10/relay-traffic-does-not-stop', 'traffic feeds on itself: %s' % e)
    finally:
        res.virtual_s += k.now / 1000.0
        res.events += k.steps
        for kk, v in k.stats.items():
            res.bump(kk, v)
        for nd in nodes:
            try:
                if nd.store is not None:
                    nd.store.close()
            except Exception:
                pass
            for sfx in ('', '-journal'):
                try:
                    os.remove(nd.store_path + sfx)
                except OSError:
                    pass
        sh.uninstall()
        res.digest = trace.digest()
    return res


def describe():
    return {
        'rule': 'one run = one seeded network (2-4 real nodes, topology, per-node chain on a shared tree, schedule, optional '
                'fault sequence) driven to quiescence; distinct = (nodes, topology, branch-length classes, faulty?, fresh?); '
                'non-trivial = at least two nodes with different start heights or forks',
        'components': {'real': ['LocalPeer, NetworkManager, ChainManager (timers, locator, inventory service/consumption, relay)',
                                'ConnectedRemotePeer handlers, MessageReceiver, codecs', 'BlockStore on real SQLite files (restart)',
                                'consensus validation of relayed blocks, transaction pool'],
                       'stub': ['TCP, selector, clocks (per-node skew), randomness', 'scrypt stand-in', 'block 1 is a trusted easy-target block',
                                'the tie-breaking block is mined by the harness acting as the miner thread']},
        'assumptions': ['liveness bound L from DESIGN 6.C10', 'clock skew <= 10 s'],
        'expected_probes': ['probe:block_of_exactly_the_maximum_size', 'converged', 'probe:shared_head_reached', 'probe:transaction_in_every_pool', 'probe:relay_quiescent',
                            'probe:transaction_after_pool_history', 'fault:restart', 'fault:partition', 'fault:slow_node',
                            'fault:connection_reset'],
    }
