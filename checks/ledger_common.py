"""Shared generator / interpreter for the ledger-sim checks (C01, C02, C05)."""
import immutables

from simkit.core import Streams, Result, Trace
from seams import env


FAMILY = {}


def _families():
    from engines import forgeries as F
    if not FAMILY:
        FAMILY.update({'C01': F.SPEND, 'C02': F.VALUE, 'C05': F.HEADER, 'struct': F.STRUCT[:-1]})
    return FAMILY


def gen_tx_spec(rng):
    n_in = rng.choice([1, 1, 1, 2, 2, 3, 4])
    n_out = rng.choice([1, 1, 2, 2, 3, 4])
    return {
        'ins': [rng.randrange(1000) for _ in range(n_in)],
        'outs': [[rng.choice([99, 98]) if rng.random() < 0.05 else rng.randrange(12), rng.randrange(1, 10)] for _ in range(n_out)],
        'fee_ppm': rng.choice([0, 0, 0, 1, 1000, 50_000, 500_000, 999_999, 1_000_000]),
    }


def gen_mine(rng, latest_bias=0.6, max_txs=4):
    m = _gen_mine(rng, latest_bias, max_txs)
    if rng.random() < 0.12:
        # the reward split over 2-3 outputs, possibly to one key twice, possibly with an output worth nothing
        k1 = rng.randrange(12)
        outs = [[k1, rng.choice([1, 3, 10])]]
        for _ in range(rng.choice([1, 1, 2])):
            outs.append([rng.choice([k1, rng.randrange(12)]), rng.choice([0, 0, 1, 5])])
        rng.shuffle(outs)
        m['reward_outs'] = outs
    return m


def _gen_mine(rng, latest_bias=0.6, max_txs=4):
    return {
        'op': 'mine',
        'tip': -1 if rng.random() < latest_bias else rng.randrange(1000),
        'txs': [gen_tx_spec(rng) for _ in range(rng.choice([0, 0, 1, 1, 2, 3, max_txs]))],
        'miner': rng.randrange(12),
        'dt': rng.choice([1, 1, 2, 30, 60, 120, 600, rng.randrange(1, 5000)]),
        'clock': rng.choice([0, 0, -30, -29, -1, 1, 30, 3600, rng.randrange(-30, 100000)]),
        'via': rng.choice(['memory', 'bytes']),
        'data_len': rng.choice([None, None, 0, 1, rng.randrange(201), rng.randrange(40, 80), 199, 200]),
    }


def generate(seed: int, tier: str, prop: str) -> dict:
    fam = _families()
    rng = Streams(seed).get('gen')
    r = rng.random()
    if prop == 'C05':
        base = 'hreal' if r < 0.3 else ('hboundary' if r < 0.65 else ('hboundary2' if r < 0.87 else 'hlow'))
    elif prop == 'C02':
        base = 'hreal' if r < 0.45 else ('hboundary' if r < 0.6 else ('hhalving' if r < 0.85 else 'hlow'))
    else:
        base = 'hreal' if r < 0.6 else ('hboundary' if r < 0.8 else 'hlow')
    cfg = {'base': base, 'hard': rng.random() < 0.3 and base != 'hlow'}
    # per-run unique objects: the run's base (hollow bases) and every reward it mines carry the run's salt, so nothing a
    # run validates can collide with what another run of the same worker process validated before
    cfg['salt'] = 1 + seed % 0xfffffff0
    if base == 'hhalving':
        cfg['k'] = rng.choice([1, 1, 2, 3, 6, 29, 30, 31, 63, 64])
        cfg['j'] = rng.randrange(4)
    if base == 'hboundary':
        cfg['k'] = rng.randrange(5)
        span = 1_209_600
        cfg['elapsed'] = rng.choice([span, span, span * 2, span // 4, span // 16, span // 2 + 1, span - 1, span + 1,
                                     rng.randrange(span // 32, span * 3)])
        if cfg['hard']:
            cfg['elapsed'] = max(cfg['elapsed'], span // 2)
    if base == 'hboundary2':
        span = 1_209_600
        cfg['elapsed'] = rng.choice([span, span * 2, span // 4, span // 2 + 1])
        cfg['elapsed2'] = rng.choice([span // 16, span // 3, span - 1, span * 3])
        if cfg['hard']:
            cfg['elapsed'] = max(cfg['elapsed'], span // 2)
            cfg['elapsed2'] = max(cfg['elapsed2'], span // 2)
    if base == 'hlow':
        n_ops = rng.randint(4, 9)
    else:
        n_ops = rng.randint(8, 30 if tier == 'quick' else 60)
    ops = []
    if base == 'hhalving':
        # walk up to the halving linearly, then put forks, reward forgeries and honest blocks right on it
        for _ in range(cfg['j'] % 4):
            m = gen_mine(rng, latest_bias=1.0, max_txs=2)
            m['tip'] = -1
            ops.append(m)
        pre = cfg['j'] % 4
        for _ in range(rng.randint(2, 5)):
            if rng.random() < 0.5:
                m = gen_mine(rng)
                m['tip'] = pre
                ops.append(m)
            else:
                ops.append({'op': 'offer', 'kind': rng.choice(['reward_prev_era', 'reward_prev_era', 'reward_plus_one', 'reward_split_over']),
                            'tip': pre, 'a': rng.randrange(1000), 'b': rng.randrange(1000), 'dt': rng.choice([1, 60, 600]),
                            'clock': 0, 'via': rng.choice(['memory', 'bytes'])})
    elif base == 'hboundary2':
        # both tips are one block below the boundary: boundary blocks on the head's branch (stored index 0) and on the
        # other branch (stored index 1), honest and forged
        for _ in range(rng.randint(2, 5)):
            if rng.random() < 0.6:
                m = gen_mine(rng)
                m['tip'] = rng.choice([0, 1, 1])
                ops.append(m)
            else:
                kind = rng.choice(['target_parent_at_boundary', 'target_elapsed_off_by_one', 'target_float', 'target_plus_1'])
                ops.append({'op': 'offer', 'kind': kind, 'tip': rng.choice([0, 1, 1]), 'a': rng.randrange(1000),
                            'b': rng.randrange(1000), 'dt': rng.choice([1, 60, 600, rng.randrange(1, 50000)]),
                            'clock': 0, 'via': rng.choice(['memory', 'bytes'])})
    elif base == 'hboundary' and rng.random() < 0.7:
        # approach the retarget boundary linearly, then put forks and boundary forgeries right on it
        k = 2 + cfg['k'] % 5
        for _ in range(k - 1):
            m = gen_mine(rng, latest_bias=1.0, max_txs=2)
            m['tip'] = -1
            ops.append(m)
        for _ in range(rng.randint(1, 4)):
            if rng.random() < 0.5:
                m = gen_mine(rng)
                m['tip'] = k - 1          # a sibling boundary block with its own timestamp
                ops.append(m)
            else:
                from engines import forgeries as F
                kind = rng.choice(['target_parent_at_boundary', 'target_elapsed_off_by_one', 'target_float',
                                   'target_plus_1', 'target_minus_1', 'ts_before_parent'])
                ops.append({'op': 'offer', 'kind': kind, 'tip': k - 1, 'a': rng.randrange(1000),
                            'b': rng.randrange(1000), 'dt': rng.choice([1, 60, 600, rng.randrange(1, 50000)]),
                            'clock': 0, 'via': rng.choice(['memory', 'bytes'])})
    else:
        for _ in range(rng.randint(2, 5)):
            ops.append(gen_mine(rng, latest_bias=0.8))
    own = fam[prop]
    others = [k for p, ks in fam.items() if p != prop for k in ks]
    while len(ops) < n_ops:
        x = rng.random()
        if x < 0.45:
            ops.append(gen_mine(rng))
        elif x < 0.9:
            kind = rng.choice(own) if rng.random() < 0.7 else rng.choice(others)
            ops.append({'op': 'offer', 'kind': kind, 'tip': -1 if rng.random() < 0.5 else rng.randrange(1000),
                        'a': rng.randrange(1000), 'b': rng.randrange(1000),
                        'dt': rng.choice([1, 60, 600, rng.randrange(1, 5000)]),
                        'clock': rng.choice([0, -30, 30, rng.randrange(-30, 10000)]),
                        'via': rng.choice(['memory', 'bytes'])})
        elif x < 0.935:
            ops.append({'op': rng.choice(['reoffer_rejected', 'reoffer_rejected', 'rebundle_rejected']), 'n': rng.randrange(100),
                        'via': rng.choice(['memory', 'bytes']), 'miner': rng.randrange(12), 'dt': rng.randrange(1, 100)})
        elif x < 0.95:
            ops.append({'op': 'snapshot'})
        elif x < 0.97 and prop == 'C05':
            ops.append({'op': 'stated_target', 't': rng.getrandbits(rng.choice([256, 256, 250, 200, 64, 8])),
                        'elapsed': rng.choice([1, 2, 1_209_599, 1_209_600, 1_209_601, 2 ** 32 - 1,
                                               rng.randrange(1, 2 ** 32)]),
                        'dt': rng.randrange(1, 1000)})
        else:
            ops.append({'op': 'reoffer', 'n': rng.randrange(1000)})
    return {'config': cfg, 'ops': ops}


def execute(script: dict, prop: str) -> Result:
    env.setup()
    env.use_fast_scrypt(True)
    from engines.ledger import LedgerSim
    res = Result()
    trace = Trace()
    sim = LedgerSim(script['config'], prop, res, trace)
    sim.op_stated_target = lambda op: stated_target(sim, op)
    sim.run(script['ops'])
    res.digest = trace.digest()
    res.distinct.add('base:%s:hard=%s' % (script['config'].get('base'), script['config'].get('hard')))
    return res


def stated_target(sim, op):
    """C05: the target stated by the node's own assembly, and judged by its validator, for an arbitrary
    256-bit previous target and elapsed time — compared with the reference retarget rule (no mining needed)."""
    import skepticoin.consensus as consensus
    from skepticoin.coinstate import CoinState
    from skepticoin.datatypes import BlockSummary
    from refmodel import rules
    from world import ledger as W
    prev_t = op['t'] % (1 << 256)
    elapsed = op['elapsed']
    h0 = 171_359
    start_h = h0 + 1 - rules.RETARGET_PERIOD
    ts_parent = W.BASE_TS
    ts = ts_parent + max(1, op.get('dt', 1))
    start_ts = ts - elapsed
    cs0, T, filler = W.hollow_base(h0, prev_t.to_bytes(32, 'big'), n_outputs=1)
    th = T.hash()
    special = W._filler_block(start_ts)
    cs = CoinState(cs0.block_by_hash, cs0.unspent_transaction_outs_by_hash,
                   immutables.Map({th: cs0.block_by_height_by_hash[th].set(start_h, special)}), cs0.heads, th)
    # keep the per-process base cache small: this base is keyed by an arbitrary target
    W._BASE_CACHE.pop((h0, prev_t.to_bytes(32, 'big'), 1, 5_000_000_000), None)
    want = rules.retarget(prev_t, elapsed).to_bytes(32, 'big')
    try:
        summ = consensus.construct_minable_summary(cs, [T.transactions[0]], ts, 0)
    except Exception as e:
        sim.res.violate('C05', 'C05/assembly-raised', 'assembling a header at a retarget boundary raised %s: %s' % (type(e).__name__, e))
        return
    sim.res.bump('stated_target_cases')
    sim.res.distinct.add('stated:%d:%d' % (prev_t.bit_length(), elapsed.bit_length()))
    sim.trace.add('stated', summ.target, want)
    if summ.target != want:
        sim.res.violate('C05', 'C05/assembly-states-wrong-target',
                        'assembly states %s, rule prescribes %s (prev=%x elapsed=%d)' % (
                            summ.target.hex(), want.hex(), prev_t, elapsed))
        return
    # validator: the prescribed target passes the header-in-chain rule, neighbours do not
    for delta in (0, 1, -1):
        t = int.from_bytes(want, 'big') + delta
        if not 0 <= t < 1 << 256:
            continue
        s2 = BlockSummary(h0 + 1, th, summ.merkle_root_hash, ts, t.to_bytes(32, 'big'), 0)
        try:
            consensus.validate_block_summary_in_coinstate(s2, cs)
            ok = True
        except Exception:
            ok = False
        if ok != (delta == 0):
            sim.res.violate('C05', 'C05/validator-target-rule-differs',
                            'validator %s target rule%+d (prev=%x elapsed=%d)' % (
                                'accepts' if ok else 'rejects', delta, prev_t, elapsed))
            return


COMPONENTS = {
    'real': ['skepticoin.consensus (all validation + block assembly)', 'skepticoin.coinstate', 'skepticoin.balances',
             'skepticoin.datatypes', 'skepticoin.serialization', 'skepticoin.signing (real secp256k1 verification)',
             'skepticoin.merkletree', 'skepticoin.pow (chain sampling over the hollow base)',
             'skepticoin.cheating (real checkpoint table and horizon in hreal/hboundary)'],
    'stub': ['scrypt (BLAKE2b stand-in; real scrypt runs in C18)', 'validator clock (script value)',
             'heights below the base tip: never-validated filler blocks (the trust a node places below the horizon)'],
}
