"""C11 — stream framing is independent of transport fragmentation."""
import struct

from simkit.core import Streams, Result, Trace
from seams import env

PROP = 'C11'
LEVEL = 'fault_enumeration'
BUDGET = {
    'quick': {'runs': 320, 'wall': 200, 'chunk': 2},
    'thorough': {'runs': 4000, 'wall': 1700, 'chunk': 2},
}
MANIFEST = {
    'engine': 'node-sim (MessageReceiver seam)',
    'level': 'fault_enumeration',
    'text': 'Per run a seeded stream of 1-6 framed real protocol messages (all seven types, encoded by the repo), optionally '
            'ending in a corrupted frame (wrong magic at each of its four bytes, length = limit+1, length 0, undecodable '
            'payload, truncated tail), is fed to a fresh real MessageReceiver: unfragmented (1024-byte reads), byte by byte, '
            'under 40 seeded cuts, and — for streams up to 520 bytes — under EVERY 2-way and EVERY 3-way cut. The recorded '
            '(header, message) sequence, compared by re-encoding, must equal the split computed by an independent '
            'length-prefix framer, and a refusal must happen iff the reference refuses, after the same number of messages. '
            'Exhaustive in cuts per short stream, sampled over streams. All net-sim/node-sim checks additionally deliver '
            'every byte in seeded fragments.'
            " For 30% of the streams the same statement is checked one level up: the stream travels over a simulated connection to a real node (LocalPeer's read loop, receiver, real handlers) in segments, including segments that exactly fill the node's 1024-byte reads and legal requests the handlers do not serve; the dispatched sequence must equal the one obtained when the stream arrives in one piece and be a prefix of the reference split."
            ' Node-level streams also include a maximum-size block frame, a burst of a thousand minimal frames, an oversize inventory followed by further frames, cuts exactly at frame ends, and valid blocks for a node whose store fails once while the first of them is flushed.',
    'note': 'Trusted: RefFramer (refmodel/framer.py, length-prefix logic only) and the repo message decoders used as a tool '
            'to decide whether a payload is decodable. Read size never exceeds the node\'s own 1024.',
}

MAX_MESSAGE_SIZE = 32 * 1024 * 1024


def generate(seed, tier):
    rng = Streams(seed).get('gen')
    n = rng.choice([1, 2, 2, 3, 3, 4, 5, 6])
    small = rng.random() < 0.75
    msgs = []
    for i in range(n):
        kinds = ['getpeers', 'getdata', 'inv', 'getblocks', 'peers', 'data_tx'] if small else \
                ['hello', 'getpeers', 'getdata', 'inv', 'getblocks', 'peers', 'data_tx', 'data_block']
        msgs.append({'kind': rng.choice(kinds), 'a': rng.randrange(1000), 'n': rng.randrange(0, 4)})
    if rng.random() < 0.08:
        # one frame well above 64 KiB in the middle of the stream: its body spans many reads and the read that
        # completes it also carries the start of the next frame
        msgs.insert(rng.randrange(len(msgs)), {'kind': 'peers_big', 'a': rng.randrange(1000), 'n': rng.randrange(3000, 3300)})
        msgs.append({'kind': 'getpeers', 'a': 1, 'n': 0})
    tail = rng.choice([None, None, 'magic0', 'magic1', 'magic2', 'magic3', 'len_over', 'len_zero', 'bad_payload',
                       'truncated', 'unknown_type', 'trailing_garbage', 'len_over_end', 'len_zero_end', 'magic_end',
                       'len_magic_alphabet', 'len_magic_alphabet', 'double_magic', 'len_near_2_32', 'len_near_2_32',
                       'len_too_short', 'len_too_short', 'len_too_long_by_little'])
    if rng.random() < 0.03:
        # a block of exactly the maximum size (the largest frame honest traffic contains)
        msgs.insert(rng.randrange(len(msgs) + 1), {'kind': 'data_block_max', 'a': 1, 'n': 0})
    through_node = rng.random() < 0.3
    if through_node and rng.random() < 0.08:
        msgs = [{'kind': 'hello', 'a': rng.randrange(1000), 'n': 0}, {'kind': 'burst_getpeers', 'a': rng.randrange(1000), 'n': rng.randrange(0, 4)}]
        tail = None
    store_fault = False
    if through_node and rng.random() < 0.15:
        # valid blocks for a node with a real store that fails once while the first of them is flushed
        store_fault = True
        msgs = [{'kind': 'hello', 'a': rng.randrange(1000), 'n': 0}, {'kind': 'getpeers', 'a': 1, 'n': 0},
                {'kind': 'data_block_valid', 'a': 0, 'n': 0}, {'kind': 'getpeers', 'a': 2, 'n': 0},
                {'kind': 'data_block_valid', 'a': 1, 'n': 0}, {'kind': 'getpeers', 'a': 3, 'n': 0}]
        tail = None
    if through_node:
        # streams that cross the node's 1024-byte reads, and legal messages the handlers do not serve
        if rng.random() < 0.6:
            msgs.insert(rng.randrange(len(msgs) + 1), {'kind': 'peers_mid', 'a': rng.randrange(1000), 'n': rng.randrange(0, 4)})
        if rng.random() < 0.4:
            msgs.insert(rng.randrange(len(msgs) + 1), {'kind': 'getdata_unserved', 'a': rng.randrange(1000), 'n': 0})
            msgs.append({'kind': 'getpeers', 'a': 2, 'n': 0})
        elif rng.random() < 0.3:
            # a message whose handler hangs up, with further frames right behind it (in the same read, or not)
            msgs.insert(rng.randrange(len(msgs) + 1), {'kind': 'inv_big', 'a': rng.randrange(1000), 'n': rng.randrange(0, 3)})
            msgs.append({'kind': 'getpeers', 'a': 3, 'n': 0})
            msgs.append({'kind': 'data_tx', 'a': rng.randrange(1000), 'n': 0})
    return {'config': {'tail': tail, 'cuts_seed': rng.getrandbits(32), 'exhaustive_limit': 520, 'through_node': through_node,
                       'store_fault': store_fault}, 'ops': msgs}


def ref_frames(stream: bytes, decodable):
    """Independent framer: returns (payloads, refused_after) — refused_after is None or the number of
    messages delivered before the stream must be refused."""
    out = []
    pos = 0
    while True:
        if len(stream) - pos < 4:
            return out, None
        if stream[pos:pos + 4] != b'MAJI':
            return out, len(out)
        if len(stream) - pos < 8:
            return out, None
        (ln,) = struct.unpack('>I', stream[pos + 4:pos + 8])
        if ln > MAX_MESSAGE_SIZE:
            return out, len(out)
        if len(stream) - pos - 8 < ln:
            return out, None
        payload = stream[pos + 8:pos + 8 + ln]
        if not decodable(payload):
            return out, len(out)
        out.append(payload)
        pos += 8 + ln


_MAXBLK = {}


def _max_size_block():
    """A block of exactly MAX_BLOCK_SIZE bytes (the size limit is inclusive): a reward paid out over very many outputs."""
    if 'b' in _MAXBLK:
        return _MAXBLK['b']
    from skepticoin.datatypes import Block, BlockHeader, BlockSummary, PowEvidence, Transaction, Input, Output, OutputReference
    from skepticoin.signing import CoinbaseData
    from skepticoin.params import MAX_BLOCK_SIZE
    from world import ledger as W

    def make(n_out, data_len):
        cb = Transaction([Input(OutputReference(b'\x00' * 32, 0), CoinbaseData(7, b'p' * data_len))],
                         [Output(1 + j, W.key(j % 12).pk) for j in range(n_out)])
        summ = BlockSummary(7, b'\x11' * 32, b'\x22' * 32, 1_700_000_000, b'\xff' * 32, 0)
        return Block(BlockHeader(summ, PowEvidence(b'\x01' * 32, b'\x02' * 32, b'\x03' * 32)), [cb])
    one = len(make(2, 0).serialize()) - len(make(1, 0).serialize())
    n_out = (MAX_BLOCK_SIZE - len(make(1, 0).serialize())) // one
    blk = make(n_out, 0)
    while len(blk.serialize()) > MAX_BLOCK_SIZE:
        n_out -= 1
        blk = make(n_out, 0)
    pad = MAX_BLOCK_SIZE - len(blk.serialize())
    if 0 < pad <= 200:
        blk = make(n_out, pad)
    _MAXBLK['b'] = blk
    _MAXBLK['size'] = len(blk.serialize())
    return blk


def build_stream(script):
    from ipaddress import IPv6Address
    from skepticoin.networking import messages as M
    from skepticoin.networking.remote_peer import MAGIC
    from world import ledger as W
    frames = []
    for i, m in enumerate(script['ops']):
        a, n = m.get('a', 0), m.get('n', 0)
        k = m['kind']
        if k == 'hello':
            msg = M.HelloMessage([M.SupportedVersion(0)], IPv6Address('::ffff:10.0.0.%d' % (a % 250 + 1)), a % 65536,
                                 IPv6Address('0::0'), 2412, a, b'sashimi test')
        elif k == 'getpeers':
            msg = M.GetPeersMessage()
        elif k == 'getdata':
            msg = M.GetDataMessage(M.DATA_BLOCK, bytes([a % 256]) * 32)
        elif k == 'getdata_unserved':
            # legal requests this version does not serve (transaction / header by id)
            msg = M.GetDataMessage(M.DATA_TRANSACTION if a % 2 else M.DATA_HEADER, bytes([a % 256]) * 32)
        elif k == 'burst_getpeers':
            # very many minimal frames in one stream (about 64 bytes each)
            for j in range(1000 + n * 40):
                h_ = M.MessageHeader(1_700_000_000 + i, 5000 + j, 0, a)
                d_ = h_.serialize() + M.GetPeersMessage().serialize()
                frames.append(MAGIC + struct.pack('>I', len(d_)) + d_)
            continue
        elif k == 'data_block_max':
            msg = M.DataMessage(M.DATA_BLOCK, _max_size_block())
        elif k == 'data_block_valid':
            msg = M.DataMessage(M.DATA_BLOCK, _easy_world()['b2' if a % 2 == 0 else 'b3'])
        elif k == 'inv_big':
            # an inventory above the 500 items the node accepts: the handler ends the connection
            msg = M.InventoryMessage([M.InventoryItem(M.DATA_BLOCK, bytes([(a + j) % 256, j % 256]) * 16) for j in range(501 + n * 7)])
        elif k == 'peers_mid':
            msg = M.PeersMessage([M.Peer(a + j, IPv6Address('::ffff:10.2.%d.%d' % (j % 250, a % 250)), 2412) for j in range(40 + n * 25)])
        elif k == 'inv':
            msg = M.InventoryMessage([M.InventoryItem(M.DATA_BLOCK, bytes([(a + j) % 256]) * 32) for j in range(n)])
        elif k == 'getblocks':
            msg = M.GetBlocksMessage([bytes([(a + j) % 256]) * 32 for j in range(n + 1)])
        elif k == 'peers_big':
            msg = M.PeersMessage([M.Peer(a + j, IPv6Address('::ffff:10.%d.%d.%d' % (j // 65536 % 256, j // 256 % 256, j % 256)), 2412) for j in range(n)])
        elif k == 'peers':
            msg = M.PeersMessage([M.Peer(a + j, IPv6Address('::ffff:10.1.%d.%d' % (j, a % 250)), 2412) for j in range(n)])
        elif k == 'data_tx':
            msg = M.DataMessage(M.DATA_TRANSACTION, W.make_tx([(bytes([a % 256]) * 32, 0)], [(5 + a, W.key(a % 12))], [W.key(1)]))
        else:
            cs, T, _ = W.hollow_base(W.H_REAL, W.TRIVIAL_TARGET)
            msg = M.DataMessage(M.DATA_BLOCK, T)
        hdr = M.MessageHeader(1_700_000_000 + i, i + 1, a % 3, a * 7919)
        data = hdr.serialize() + msg.serialize()
        frames.append(MAGIC + struct.pack('>I', len(data)) + data)
    tail = script['config'].get('tail')
    good = M.MessageHeader(1_700_000_099, 99, 0, 5).serialize() + M.GetPeersMessage().serialize()
    if tail is None:
        pass
    elif tail in ('magic0', 'magic1', 'magic2', 'magic3'):
        i = int(tail[-1])
        mg = bytearray(MAGIC)
        mg[i] ^= 0x20
        frames.append(bytes(mg) + struct.pack('>I', len(good)) + good)
    elif tail == 'len_over':
        frames.append(MAGIC + struct.pack('>I', MAX_MESSAGE_SIZE + 1) + good)
    elif tail == 'len_magic_alphabet':
        # an over-limit length spelled with bytes that also occur in the magic (0x41 'A', 0x49 'I', 0x4a 'J', 0x4d 'M')
        n_ = len(frames)
        ln = [b'A\x00\x00\x00', b'MAJI', b'I\x00\x00\x01', b'JJJJ', b'MA\x00\x00'][n_ % 5]
        frames.append(MAGIC + ln + good)
        frames.append(MAGIC + struct.pack('>I', len(good)) + good)
    elif tail == 'len_near_2_32':
        # over-limit lengths with the top bit set (negative if read as a signed number), followed by decodable bytes
        ln = [0xFFFFFFFF, 0xFFFFFFFE, 0xFFFFFFC0, 0x80000000, 0xFFFFFF00, 0xFFFFFFFF - len(good)][len(frames) % 6]
        frames.append(MAGIC + struct.pack('>I', ln) + good + good + good)
        frames.append(MAGIC + struct.pack('>I', len(good)) + good)
    elif tail == 'len_too_short':
        # the length field announces fewer bytes than the message needs; the rest follows immediately
        k_ = 1 + (len(frames) * 7) % (len(good) - 1)
        frames.append(MAGIC + struct.pack('>I', len(good) - k_) + good)
        frames.append(MAGIC + struct.pack('>I', len(good)) + good)
    elif tail == 'len_too_long_by_little':
        # the length field announces a few bytes more than the message: they belong to this frame, the next magic is off
        k_ = 1 + len(frames) % 5
        frames.append(MAGIC + struct.pack('>I', len(good) + k_) + good)
        frames.append(MAGIC + struct.pack('>I', len(good)) + good)
    elif tail == 'double_magic':
        frames.append(MAGIC + MAGIC + struct.pack('>I', len(good)) + good)
    elif tail == 'len_over_end':
        frames.append(MAGIC + struct.pack('>I', MAX_MESSAGE_SIZE + 1 + len(frames)))
    elif tail == 'len_zero_end':
        frames.append(MAGIC + struct.pack('>I', 0))
    elif tail == 'magic_end':
        frames.append(b'MAJJ')
    elif tail == 'len_zero':
        frames.append(MAGIC + struct.pack('>I', 0))
        frames.append(MAGIC + struct.pack('>I', len(good)) + good)
    elif tail == 'bad_payload':
        bad = good[:53] + b'\x00\x02\x00\xff'   # inventory announcing 127 items, none present
        frames.append(MAGIC + struct.pack('>I', len(bad)) + bad)
        frames.append(MAGIC + struct.pack('>I', len(good)) + good)
    elif tail == 'unknown_type':
        bad = good[:53] + b'\x00\x63\x00'
        frames.append(MAGIC + struct.pack('>I', len(bad)) + bad)
    elif tail == 'truncated':
        f = MAGIC + struct.pack('>I', len(good)) + good
        frames.append(f[:len(f) - 1 - (len(frames) % 7)])
    elif tail == 'trailing_garbage':
        frames.append(b'\x00\x01\x02')
    return b''.join(frames)


class _Recorder:
    def __init__(self):
        self.got = []

    def handle_message_received(self, header, message):
        self.got.append(header.serialize() + message.serialize())


_EASY = {}


def _easy_world():
    """Genesis + trusted easy-target block 1, and two valid blocks on top (deterministic; built once per process)."""
    if 'cs' not in _EASY:
        from simkit.core import Result as _R, Trace as _T
        from engines.ledger import LedgerSim
        from world import ledger as W
        env.use_fast_scrypt(True)
        sim = LedgerSim({'base': 'hlow_easy'}, PROP, _R(), _T())
        b2 = W.roundtrip(W.mine_honest(sim.cs, [], W.key(2), sim.cs.head().timestamp + 60))
        cs2 = sim.cs.add_block_no_validation(b2)
        b3 = W.roundtrip(W.mine_honest(cs2, [], W.key(3), b2.header.summary.timestamp + 60))
        _EASY.update({'cs': sim.cs, 'b2': b2, 'b3': b3})
    return _EASY


def feed_node(stream, cuts, seed, store_fault=False):
    """The same stream through a whole node: a peer's connection on the simulated network delivers it in segments ending
    at the given offsets (each segment has arrived and was read before the next is sent); LocalPeer's own read loop, the
    receiver and the real message handlers run.  Returns the list of dispatched (header, message) encodings."""
    from seams.net import Kernel, SimNode, Shims
    from seams.bots import Bot
    from skepticoin.coinstate import CoinState
    from skepticoin.networking.remote_peer import ConnectedRemotePeer
    k = Kernel(seed, {'latency': 'eager', 'frag': 'eager', 'short_writes': 'eager', 'order': 'eager'})
    sh = Shims(k)
    sh.install()
    got = []
    orig = ConnectedRemotePeer.handle_message_received

    def recording(self, header, message):
        if self.host == '10.0.1.1' and self.direction == 'INCOMING':       # the connection under test (the node may open others)
            got.append(header.serialize() + message.serialize())
        return orig(self, header, message)
    ConnectedRemotePeer.handle_message_received = recording
    try:
        if store_fault:
            # a node with a real (in-memory) store whose chain the stream's blocks extend; the store fails ONCE ("database is
            # locked") when the first relayed block is flushed
            import sqlite3
            from engines.ledger import reset_horizon
            env.use_fast_scrypt(True)
            reset_horizon(True)
            node = SimNode(k, 'N', '10.0.0.1', port=2412, store_path=':memory:')
            node.boot(_easy_world()['cs'], peers=[])
            real_flush = node.lp.disk_interface.flush_blocks
            fired = {'n': 0}

            def faulty_flush():
                fired['n'] += 1
                if fired['n'] == 1:
                    raise sqlite3.OperationalError('database is locked')
                return real_flush()
            node.lp.disk_interface.flush_blocks = faulty_flush
        else:
            node = SimNode(k, 'N', '10.0.0.1', port=2412, store_path=None)
            node.boot(CoinState.zero(), peers=[])
        # the peer only reads: nothing but the stream's own bytes travels towards the node
        bot = Bot(k, 'bot', '10.0.1.1', {'greet': False, 'silent': True, 'my_port': 0})
        c = bot.connect(('10.0.0.1', 2412))
        k.run(k.now + 500)
        prev = 0
        for cpos in list(cuts) + [len(stream)]:
            if cpos > prev and not c.closed:
                c.send_raw(stream[prev:cpos])
                prev = cpos
                k.run(k.now + 300)
        k.run(k.now + 1000)
        err = node.loop_error
    finally:
        ConnectedRemotePeer.handle_message_received = orig
        sh.uninstall()
        if store_fault:
            from engines.ledger import reset_horizon as _rh
            _rh(False)
            try:
                node.store.close()
            except Exception:
                pass
    return got, err


def feed(stream, cuts):
    """Feed stream to a fresh real MessageReceiver in chunks ending at the given cut offsets.
    Returns (delivered payloads, refused: bool)."""
    from skepticoin.networking.remote_peer import MessageReceiver
    rec = _Recorder()
    r = MessageReceiver(rec)
    prev = 0
    try:
        for c in cuts:
            if c > prev:
                r.receive(stream[prev:c])
                prev = c
        if prev < len(stream):
            r.receive(stream[prev:])
    except Exception:
        return rec.got, True
    return rec.got, False


def execute(script):
    import random
    from io import BytesIO
    env.setup()
    from skepticoin.networking import messages as M
    res = Result()
    trace = Trace()
    stream = build_stream(script)

    def decodable(payload):
        try:
            f = BytesIO(payload)
            M.MessageHeader.stream_deserialize(f)
            M.Message.stream_deserialize(f)
            return True
        except Exception:
            return False

    want, refuse_after = ref_frames(stream, decodable)

    def canonical(payload):
        # what a frame's bytes mean: the decoded (header, message), compared by re-encoding (bytes after the message
        # inside a frame are not part of the message)
        f = BytesIO(payload)
        h_ = M.MessageHeader.stream_deserialize(f)
        m_ = M.Message.stream_deserialize(f)
        return h_.serialize() + m_.serialize()
    want = [canonical(p_) for p_ in want]
    n = len(stream)
    res.sample = {'stream_bytes': n, 'messages': len(want), 'refused_after': refuse_after,
                  'tail': script['config'].get('tail')}

    def check(cuts, label):
        got, refused = feed(stream, cuts)
        res.events += 1
        if refused != (refuse_after is not None):
            res.violate(PROP, 'C11/refusal-depends-on-fragmentation' if label != 'whole' else 'C11/refusal-differs-from-reference',
                        'cuts %s (%s): stream %s, reference %s' % (
                            list(cuts)[:6], label, 'refused' if refused else 'not refused',
                            'refuses after %s messages' % refuse_after if refuse_after is not None else 'does not refuse'))
            return False
        if got != want:
            res.violate(PROP, 'C11/messages-depend-on-fragmentation' if label != 'whole' else 'C11/messages-differ-from-reference',
                        'cuts %s (%s): %d messages delivered, reference splits into %d' % (list(cuts)[:6], label, len(got), len(want)))
            return False
        return True

    def in_1024(cuts):
        # reads never exceed the node's own recv size
        out = []
        prev = 0
        for c in list(cuts) + [n]:
            while c - prev > 1024:
                prev += 1024
                out.append(prev)
            if c < n:
                out.append(c)
            prev = c
        return out

    ok = check(in_1024([]), 'whole')
    if ok and n <= 100_000:
        ok = check(range(1, n), 'byte-by-byte')
        res.bump('byte_by_byte')
    if n > 100_000:
        res.bump('probe:stream_with_a_maximum_size_block')
    rng = random.Random(script['config'].get('cuts_seed', 0))
    if ok:
        for _ in range(40):
            k = rng.choice([1, 2, 3, 5, 9, 20])
            cuts = sorted({rng.randrange(1, n) for _ in range(k)}) if n > 1 else []
            if not check(in_1024(cuts), 'seeded'):
                ok = False
                break
            res.bump('seeded_cuts')
    if ok and n <= script['config'].get('exhaustive_limit', 520):
        # every 2-way and every 3-way cut
        cnt = 0
        for i in range(1, n):
            if not check((i,), '2-way'):
                ok = False
                break
            cnt += 1
        if ok:
            for i in range(1, n):
                for j in range(i + 1, n):
                    if not check((i, j), '3-way'):
                        ok = False
                        break
                    cnt += 1
                if not ok:
                    break
        res.bump('exhaustive_cuts', cnt)
        res.bump('streams_cut_exhaustively')
    if ok and script['config'].get('through_node'):
        # the same statement one level up: through LocalPeer's read loop and the real handlers.  What is dispatched when the
        # stream arrives in one piece is the yardstick (handlers may end the connection; that too depends on bytes only)
        seed = script.get('seed', 0)
        sf_ = bool(script['config'].get('store_fault'))
        base_got, err = feed_node(stream, [], seed, sf_)
        if sf_:
            res.bump('fault:store_failed_once_during_stream')
        res.bump('node_level_streams')
        if err:
            res.violate(PROP, 'C11/exception-left-event-loop', '%s: %s' % err[:2])
            ok = False
        elif base_got != want[:len(base_got)]:
            res.violate(PROP, 'C11/messages-differ-from-reference', 'through the node, unfragmented: the dispatched messages are not a prefix of '
                        'the reference split (%d dispatched, reference %d)' % (len(base_got), len(want)))
            ok = False
        cutsets = []
        for m in range(1024, n, 1024):
            cutsets.append((m,))                         # a segment that exactly fills the node's reads
        for m in range(1024, n, 1024):
            for j in (1, 5, 246, 1023):
                if m + j < n:
                    cutsets.append((m, m + j))
                if m - j > 0:
                    cutsets.append((m - j, m))
        for _ in range(12):
            kk = rng.choice([1, 2, 3, 5])
            cutsets.append(tuple(sorted({rng.randrange(1, n) for _ in range(kk)})) if n > 1 else ())
        cutsets.append(tuple(range(1, min(n, 40))))      # the first bytes one by one
        ends, off_ = [], 0
        while off_ + 8 <= n:
            ln_ = struct.unpack('>I', stream[off_ + 4:off_ + 8])[0]
            if ln_ > n:
                break
            off_ += 8 + ln_
            if 0 < off_ < n:
                ends.append(off_)
        for e_ in ends[:6]:
            cutsets.insert(0, (e_,))                     # a read that ends exactly where a frame ends
        for cs_ in cutsets[:40]:
            if not ok:
                break
            got_n, err = feed_node(stream, cs_, seed, sf_)
            res.bump('node_level_cuts')
            if any(x % 1024 == 0 for x in cs_):
                res.bump('probe:segment_exactly_fills_a_read')
            if err:
                res.violate(PROP, 'C11/exception-left-event-loop', 'cuts %s: %s: %s' % (list(cs_)[:6], err[0], err[1]))
                ok = False
            elif got_n != base_got:
                res.violate(PROP, 'C11/messages-depend-on-fragmentation',
                            'through the node (read loop + real handlers), cuts %s: %d messages dispatched, %d when the stream arrives in '
                            'one piece' % (list(cs_)[:6], len(got_n), len(base_got)))
                ok = False
    res.bump('streams')
    if refuse_after is not None:
        res.bump('probe:stream_with_refusal')
    res.distinct.add('stream:%d:%d:%s' % (n, len(want), script['config'].get('tail')))
    trace.add('stream', n, len(want), refuse_after)
    res.digest = trace.digest()
    return res


def describe():
    return {
        'rule': 'one run = one stream; evaluations = streams; counters.exhaustive_cuts = fragmentations tried exhaustively '
                '(all 2-way and 3-way cuts of streams <= 520 bytes), plus byte-by-byte, whole and 40 seeded cuts each; '
                'distinct = (stream length, message count, tail corruption kind); non-trivial = stream with at least one '
                'complete frame or one refusal',
        'exhaustive_note': 'exhaustive in 2-/3-way cuts per short stream; sampled over streams',
        'components': {'real': ['skepticoin.networking.remote_peer.MessageReceiver', 'skepticoin.networking.messages codecs'],
                       'stub': ['the peer object behind the receiver records (header, message) instead of handling them']},
        'assumptions': ['reads of at most 1024 bytes (the node\'s own recv size)'],
        'expected_probes': ['streams_cut_exhaustively', 'probe:stream_with_refusal', 'seeded_cuts', 'byte_by_byte'],
    }
