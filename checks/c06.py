"""C06 — tamper evidence: every single-bit flip and every truncation of a fully valid block's encoding
either fails to decode or is rejected by full validation against the same chain."""
from simkit.core import Streams, Result, Trace
from seams import env
from checks import ledger_common as LC

PROP = 'C06'
LEVEL = 'fault_enumeration'
BUDGET = {
    'quick': {'runs': 400, 'wall': 200, 'chunk': 2},
    'thorough': {'runs': 3000, 'wall': 1700, 'chunk': 2},
}
MANIFEST = {
    'engine': 'ledger-sim (corruption faults)',
    'level': 'fault_enumeration',
    'text': 'Per run a short seeded chain (hollow base above the real checkpoint horizon, or real genesis with the horizon '
            'patched to 0; trivial or 2^252 target; 0-4 transactions of mixed shapes in the swept blocks); for each of the '
            'last 1-3 fully valid blocks the COMPLETE single-fault space of its encoding is swept: every bit flipped and '
            'every truncation length, each decoded and offered to CoinState.add_block against the same chain (before and, '
            'for a sample, after the genuine block is stored). Exhaustive per block, sampled over blocks and chains.',
    'note': 'Trusted: the repo decoder is the thing under test together with validation; the harness only flips bits. '
            'scrypt stand-in (a flipped summary bit changes the stand-in hash exactly as it would change scrypt). '
            'Insertions / re-encodings belong to C07 and are not generated here.',
}


def generate(seed, tier):
    rng = Streams(seed).get('gen')
    base = rng.choice(['hreal', 'hreal', 'hreal', 'hlow'])
    hard = base == 'hreal' and rng.random() < 0.5
    n = rng.randint(1, 3) if base == 'hlow' else rng.randint(2, 6)
    ops = []
    for i in range(n):
        m = LC.gen_mine(rng, latest_bias=0.7, max_txs=3)
        m['clock'] = rng.choice([0, -30, 100])
        m['via'] = 'memory'
        if i >= n - 2:
            m['txs'] = [LC.gen_tx_spec(rng) for _ in range(rng.choice([0, 1, 1, 2, 3]))]
            for t in m['txs']:
                t['ins'] = t['ins'][:2]
        ops.append(m)
    return {'config': {'base': base, 'hard': hard, 'sweep_last': rng.randint(1, 2), 'after_rate': 0.03,
                       'sample_seed': rng.getrandbits(32)}, 'ops': ops}


def execute(script):
    import random
    env.setup()
    env.use_fast_scrypt(True)
    from engines.ledger import LedgerSim, cheap_fp
    from skepticoin.datatypes import Block
    from refmodel import rules
    from world import ledger as W
    res = Result()
    trace = Trace()
    cfg = script['config']
    # build the chain, remembering the state before each block
    sim = LedgerSim(cfg, PROP, res, trace)
    states = []
    for op in script['ops']:
        before = sim.cs
        n0 = len(sim.stored)
        sim.op_mine(op)
        if sim.dead:
            break
        if len(sim.stored) > n0:
            bid = sim.stored[-1]
            blk = sim.block_objs[bid]
            ts = blk.header.summary.timestamp
            states.append((before, sim.cs, blk, ts + max(-30, op.get('clock', 0))))
    if not states:
        res.digest = trace.digest()
        return res
    rng = random.Random(cfg.get('sample_seed', 0))
    swept = 0
    for before, after, blk, now in states[-cfg.get('sweep_last', 1):]:
        raw = blk.serialize()
        bid = rules.block_id(blk)
        # sanity of the harness: the genuine bytes are accepted against 'before'
        try:
            before.add_block(Block.deserialize(raw), now)
        except Exception as e:
            raise RuntimeError('harness: genuine block not accepted: %r' % e)
        nbits = len(raw) * 8
        fp_before = cheap_fp(before)
        cand = 0
        for kind, idx in [('flip', i) for i in range(nbits)] + [('trunc', i) for i in range(len(raw))]:
            if kind == 'flip':
                ba = bytearray(raw)
                ba[idx >> 3] ^= 1 << (idx & 7)
                mut = bytes(ba)
            else:
                mut = raw[:idx]
            cand += 1
            try:
                mb = Block.deserialize(mut)
            except Exception:
                res.bump('undecodable')
                continue
            res.bump('decoded')
            against = before
            if rng.random() < cfg.get('after_rate', 0.0):
                against = after
                res.bump('offered_after_genuine_stored')
            try:
                new = against.add_block(mb, now)
                accepted = True
            except Exception as e:
                accepted = False
                res.bump('rejected:' + type(e).__name__)
            if accepted:
                mid = rules.block_id(mb)
                same = ' (same id as the original)' if mid == bid else ''
                res.violate(PROP, 'C06/altered-block-accepted',
                            '%s at %s %d of a %d-byte block was decoded and accepted%s' % (
                                kind, 'bit' if kind == 'flip' else 'length', idx, len(raw), same),
                            {'kind': kind, 'index': idx})
                break
            if kind == 'flip':
                # same id with different content must not exist: id is recomputed from the re-encoded header
                if rules.block_id(mb) == bid and mb.serialize() != raw:
                    res.bump('probe:same_id_different_content_rejected')
        if cheap_fp(before) != fp_before:
            res.violate(PROP, 'C06/state-changed-by-rejected-candidate', 'receiver state changed during the sweep')
        if res.violations:
            break
        # the genuine block is still accepted afterwards
        try:
            before.add_block(Block.deserialize(raw), now)
        except Exception:
            res.violate(PROP, 'C06/genuine-block-rejected-after-sweep', 'the genuine block is no longer accepted')
            break
        swept += 1
        res.bump('blocks_swept')
        res.bump('candidates', cand)
        res.distinct.add('block:%s:%d:%d' % (bid.hex()[:12], len(raw), len(blk.transactions)))
        trace.add('swept', bid, cand)
        res.events += cand
    res.sample = {'blocks_swept': swept, 'bytes': [len(s[2].serialize()) for s in states[-cfg.get('sweep_last', 1):]]}
    res.digest = trace.digest()
    return res


def describe():
    return {
        'rule': 'one run = one seeded chain whose last 1-2 valid blocks are swept exhaustively (every bit flip, every '
                'truncation length); evaluations = runs, counters.candidates = corrupted encodings tried; distinct = '
                'distinct swept blocks (id, size, transaction count); non-trivial = the genuine encoding was accepted '
                'before and after its sweep',
        'exhaustive_note': 'exhaustive per swept block (all 8*len bit flips + all len truncations); sampled over blocks',
        'components': LC.COMPONENTS,
        'assumptions': ['scrypt stand-in', 'single-fault model per candidate (one flip or one truncation)'],
        'expected_probes': ['blocks_swept', 'decoded', 'undecodable', 'offered_after_genuine_stored'],
    }
