"""C01 — header rules: proof of work, difficulty, height, time, evidence; own assembly satisfies them."""
from checks import ledger_common as LC

PROP = 'C01'
LEVEL = 'exploration'
BUDGET = {
    'quick': {'runs': 1600, 'wall': 150, 'chunk': 10},
    'thorough': {'runs': 60000, 'wall': 1500, 'chunk': 50},
}


MANIFEST = {
    'engine': 'ledger-sim',
    'level': 'exploration',
    'text': 'Seeded search over chain histories and 18 spend-forgery kinds (missing/spent/other-fork/same-block outputs, repeated references, wrong key, altered outputs or inputs after signing, swapped signatures, placeholders) built on any stored parent, each sealed with valid merkle root, evidence and proof of work so it reaches the spend rules; accepted blocks are re-judged by an independent ledger replay with its own ECDSA verification over its own blanked-transaction message; receiver state is fingerprinted before/after each rejection. Sampling, not proof.'
            ' Forgeries include the all-zero key spent with a crafted signature and conflicting spends that are not neighbours in the block; honest rewards may be split over several outputs, some worth nothing.',
    'note': 'Trusted: reference ledger/rules, python-ecdsa, repo serializers as tools, scrypt stand-in, hollow base.',
}


def generate(seed, tier):
    return LC.generate(seed, tier, PROP)


def execute(script):
    return LC.execute(script, PROP)


def describe():
    return {
        'rule': 'one run = one seeded script of 8-60 operations (honest blocks with transactions on any stored tip, spend/value/header/structure forgeries sealed with recomputed merkle root, evidence and nonce, snapshots, re-offers) against CoinState.add_block; a case is distinct by (forgery kind x base kind x delivery form) and base configuration; non-trivial = the candidate reached the in-chain rules (its stand-alone checks, merkle root, evidence and proof of work are valid by construction)',
        'components': LC.COMPONENTS,
        'assumptions': ['scrypt replaced by a fast hash (C18 runs the real one)',
                        'hollow base: heights below the base tip are unvalidated fillers',
                        'reference target/time/height rules are independent code; evidence and merkle root are '
                        'recomputed with the repo constructors as tools'],
        'expected_probes': ['probe:fork_created', 'probe:reorganisation', 'probe:other_fork_output_spent_attempt', 'probe:block_with_transactions'],
    }
